//go:build verif

// Contracts for package smtp (endpoint) (checked by /verif/govc; comment-only file).
package smtp

//@ import gosmtp "github.com/emersion/go-smtp"

// ---- C16: reply conversion at the endpoint ----
//@ pure func plainSMTP(e error) bool = isType(e, "*gosmtp.SMTPError")
//@ func (*Endpoint).wrapErr
//@   prop C16
//@   modifies *
//@   ensures err == nil ==> result == nil
//@   ensures err != nil ==> isType(result, "*gosmtp.SMTPError") && as(result, "*gosmtp.SMTPError") != nil
//@   ensures err != nil ==> coherent(as(result, "*gosmtp.SMTPError").Code, as(result, "*gosmtp.SMTPError").EnhancedCode)
//@   ensures err != nil ==> as(result, "*gosmtp.SMTPError").Code/100 == 4 || as(result, "*gosmtp.SMTPError").Code/100 == 5
//@   ensures err != nil && annAgrees(err) && !plainSMTP(err) && !isDeadline(err) ==> (as(result, "*gosmtp.SMTPError").Code/100 == 4) == isTemp(err)
//@   ensures err != nil && !annotated(err) && !plainSMTP(err) && !isDeadline(err) ==> as(result, "*gosmtp.SMTPError").Code == (isTemp(err) ? 451 : 554)
//@   ensures err != nil && !isType(fieldVal(err, "smtp_msg"), "string") && !plainSMTP(err) && !isDeadline(err) && msgId == "" && !mangleUTF8 ==> as(result, "*gosmtp.SMTPError").Message == "Internal server error"
//@   ensures err != nil && mangleUTF8 ==> allASCII(as(result, "*gosmtp.SMTPError").Message)
//@   loop 0 invariant allASCII((&b).content)

//@ uninterp func isDeadline(e error) bool
//@ extern func errors.Is(err error, target error) bool
//@   ensures target == context.DeadlineExceeded ==> result == isDeadline(err)

// ---- C15: header sanity for submissions ----
// A submission is accepted only with a From field that parses; several author addresses require a Sender field;
// a Sender field must parse.
// Helpers of submissionPrepare: a random Message-ID, the clock and a date parser (no effect on tracked state; assumed).
//@ extern func msgIDField() (id string, err error)
//@ extern func now$var() time.Time
//@ extern func parseMessageDateTime(maybeDate string) (t time.Time, err error)
//@ func (*Session).submissionPrepare
//@   prop C15
//@   modifies *
//@   requires s != nil && header != nil && msgMeta != nil
//@   ensures result == nil ==> hdrGet(*header, "From") != "" && addrListErr(hdrGet(*header, "From")) == nil
//@   ensures result == nil && len(addrList(hdrGet(*header, "From"))) > 1 ==> hdrGet(*header, "Sender") != ""
//@   ensures result == nil && hdrGet(*header, "Sender") != "" ==> addrOneErr(hdrGet(*header, "Sender")) == nil
//@   loop 0 invariant rangeindex >= 0 ==> (hdrGet(*header, "Sender") != "" ==> addrOneErr(hdrGet(*header, "Sender")) == nil)
