//go:build verif

// Contracts for package milter (checked by /verif/govc; comment-only file).
package milter

// ---- C16 ----
// The basic code of a reply-code action is the remote milter's; maddy adds the enhanced code, whose class must follow it.
//@ func (*state).handleAction
//@   prop C16
//@   modifies *
//@   ensures old(act.Code) == milter.ActReplyCode ==> isType(result.Reason, "*exterrors.SMTPError") && as(result.Reason, "*exterrors.SMTPError").EnhancedCode[0] == as(result.Reason, "*exterrors.SMTPError").Code / 100
//@ exempt (*milter.state).handleAction/literal:SMTPError#0 : the basic code is relayed from the milter (any three digits); coherence with the enhanced code is the function's ensures clause
