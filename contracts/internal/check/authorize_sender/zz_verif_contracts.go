//go:build verif

// Contracts for package authorize_sender (checked by /verif/govc; comment-only file).
package authorize_sender

//@ import authz "github.com/foxcpp/maddy/internal/authz"

// ---- C15: sender authorization ----
// The two configured normalisation functions, as functions of their argument (one check instance at a time).
//@ uninterp func fromNormOf(s string) string
//@ uninterp func fromNormErr(s string) error
//@ uninterp func authNormOf(s string) string
//@ uninterp func authNormErr(s string) error
//@ extern func (Check).fromNorm$field(s string) (r string, err error)
//@   ensures r == fromNormOf(s) && err == fromNormErr(s)
//@ extern func (Check).authNorm$field(s string) (r string, err error)
//@   ensures r == authNormOf(s) && err == authNormErr(s)
// gAuthzCalls counts entitlement lookups; gAuthzFor names the user name of the most recent one.
// prepared(c, e, a): a is one of the addresses the entitlement lookup is made for when the sender address normalises
// to e: the prepare_email table's value(s) for e, or e itself when the table has none.
//@ pure func prepared(c *Check, e string, a string) bool = implements(c.emailPrepare, "module.MultiTable") ? ((len(tblMulti(c.emailPrepare, e)) > 0 && (exists k int :: 0 <= k && k < len(tblMulti(c.emailPrepare, e)) && tblMulti(c.emailPrepare, e)[k] == a)) || (len(tblMulti(c.emailPrepare, e)) == 0 && a == e)) : (tblOK(c.emailPrepare, e) ? a == tblVal(c.emailPrepare, e) : a == e)
// authzSender: no reason is returned only for an authenticated user whose normalised name is entitled (by the
// user_to_email table) to the prepared form of the normalised address; every other outcome carries a reason and went
// through one of the configured actions.
//@ func (*state).authzSender
//@   prop C15
//@   nopanic
//@   modifies gAuthzOK
//@   requires s != nil && s.c != nil && s.c.emailPrepare != nil && s.c.userToEmail != nil && s.c.fromNorm != nil && s.c.authNorm != nil
//@   ensures result.Reason == nil ==> authName != "" && fromNormErr(email) == nil && authNormErr(authName) == nil && gAuthzOK
//@   ensures authName == "" ==> result.Reason != nil && result.Reject == (s.c.unauthAction.Reject) && result.Quarantine == (s.c.unauthAction.Quarantine)
//@   assert-call authz.AuthorizeEmailUse : $username == authNormOf(authName) && $mapping == s.c.userToEmail && len($addrs) >= 1 && (forall k int :: 0 <= k && k < len($addrs) ==> prepared(s.c, fromNormOf(email), $addrs[k]))

// (the abstract header model and the net/mail contracts are in /verif/prelude/gomessage.spec)

// CheckSender: the envelope sender is checked for the authenticated user of the connection (locally generated
// messages, which have no connection, are skipped).
//@ func (*state).CheckSender
//@   prop C15
//@   nopanic
//@   modifies gAuthzOK
//@   requires s != nil && s.c != nil && s.msgMeta != nil && s.c.emailPrepare != nil && s.c.userToEmail != nil && s.c.fromNorm != nil && s.c.authNorm != nil
//@   ensures s.msgMeta.Conn != nil && result.Reason == nil ==> s.msgMeta.Conn.AuthUser != "" && gAuthzOK
//@   assert-call (*state).authzSender : $authName == s.msgMeta.Conn.AuthUser && $email == fromEmail
// CheckBody (when header checking is on and the message came over a connection): no reason is returned only if there
// is exactly one From field with exactly one address and the user is entitled to that address or to the address of
// the Sender field.
//@ func (*state).CheckBody
//@   prop C15
//@   nopanic
//@   modifies gAuthzOK
//@   requires s != nil && s.c != nil && s.msgMeta != nil && s.c.emailPrepare != nil && s.c.userToEmail != nil && s.c.fromNorm != nil && s.c.authNorm != nil
//@   ensures s.c.checkHeader && s.msgMeta.Conn != nil && result.Reason == nil ==> s.msgMeta.Conn.AuthUser != "" && gAuthzOK
//@   ensures s.c.checkHeader && s.msgMeta.Conn != nil && result.Reason == nil ==> hdrFieldCount(hdr, "From") == 1 && addrListErr(hdrGet(hdr, "From")) == nil && len(addrList(hdrGet(hdr, "From"))) == 1
//@   assert-call (*state).authzSender #0 : $authName == s.msgMeta.Conn.AuthUser && $email == addrList(hdrGet(hdr, "From"))[0].Address
//@   assert-call (*state).authzSender #1 : $authName == s.msgMeta.Conn.AuthUser && hdrGet(hdr, "Sender") != "" && addrOneErr(hdrGet(hdr, "Sender")) == nil && $email == addrOne(hdrGet(hdr, "Sender")).Address
