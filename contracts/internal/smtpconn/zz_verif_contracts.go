//go:build verif

// Contracts for package smtpconn (checked by /verif/govc; comment-only file).
package smtpconn

// ---- C16 ----
//@ exempt (*smtpconn.C).wrapClientErr/literal:SMTPError#0 : relayed: copies the remote server's reply code and enhanced code verbatim (the statement is about failures maddy itself generates)
