//go:build verif

// Contracts for package msgpipeline (checked by /verif/govc; comment-only file).
package msgpipeline

// ---- C16 ----
// With two or more arguments both codes are the operator's; with at most one argument maddy computes the enhanced code.
//@ func parseRejectDirective
//@   prop C16
//@   modifies *
//@   ensures result1 == nil && len(node.Args) == 0 ==> coherent(result0.Code, result0.EnhancedCode)
//@   ensures result1 == nil && len(node.Args) == 1 ==> coherent(result0.Code, result0.EnhancedCode)
//@   ensures result1 == nil ==> result0 != nil && (result0.Code/100 == 4 || result0.Code/100 == 5)
//@ exempt msgpipeline.parseRejectDirective/literal:SMTPError#0 : with 2+ arguments both codes are operator-supplied; the computed cases are the function's own ensures clauses

//@ extern func config.NodeErr(node config.Node, f string, args []any) error
//@   ensures result != nil
