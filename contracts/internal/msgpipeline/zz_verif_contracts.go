//go:build verif

// Contracts for package msgpipeline (checked by /verif/govc; comment-only file).
package msgpipeline

// ---- C16 ----
// With two or more arguments both codes are the operator's; with at most one argument maddy computes the enhanced code.
//@ func parseRejectDirective
//@   prop C16
//@   modifies *
//@   ensures result1 == nil && len(node.Args) == 0 ==> coherent(result0.Code, result0.EnhancedCode)
//@   ensures result1 == nil && len(node.Args) == 1 ==> coherent(result0.Code, result0.EnhancedCode)
//@   ensures result1 == nil ==> result0 != nil && (result0.Code/100 == 4 || result0.Code/100 == 5)
//@ exempt msgpipeline.parseRejectDirective/literal:SMTPError#0 : with 2+ arguments both codes are operator-supplied; the computed cases are the function's own ensures clauses

//@ extern func config.NodeErr(node config.Node, f string, args []any) error
//@   ensures result != nil

// ---- C06: merging of check results ----
// wfRes: a result with a flag set carries a reason (what FailAction.Apply guarantees for results it produced).
//@ pure func wfRes(r module.CheckResult) bool = (r.Reject || r.Quarantine) ==> r.Reason != nil
// The two sync.Once values guard the two error slots: once fired, the slot is set.
//@ func (*checkRunner).runAndMergeResults$1$1
//@   prop C06
//@   modifies data.wg
//@ func (*checkRunner).runAndMergeResults$1$2
//@   prop C06
//@   modifies data.rejectErr
//@   ensures data.rejectErr == subCheckRes.Reason
//@ func (*checkRunner).runAndMergeResults$1$3
//@   prop C06
//@   modifies data.quarantineErr
//@   ensures data.quarantineErr == subCheckRes.Reason
// The goroutine body (one check): a rejecting result sets the reject slot, a quarantining one the quarantine slot,
// slots are never cleared.
//@ func (*checkRunner).runAndMergeResults$1
//@   prop C06
//@   modifies *
//@   requires (addrOf(data.setRejectErr).done ==> data.rejectErr != nil) && (addrOf(data.setQuarantineErr).done ==> data.quarantineErr != nil)
//@   ensures (addrOf(data.setRejectErr).done ==> data.rejectErr != nil) && (addrOf(data.setQuarantineErr).done ==> data.quarantineErr != nil)
//@   ensures old(data.rejectErr) != nil ==> data.rejectErr != nil
//@   ensures old(data.quarantineErr) != nil ==> data.quarantineErr != nil
//@   ensures wfRes(subCheckRes) && subCheckRes.Reject ==> data.rejectErr != nil
//@   ensures wfRes(subCheckRes) && subCheckRes.Quarantine && !subCheckRes.Reject ==> data.quarantineErr != nil
// The stage method of a check (called through the captured runner) does not touch the merge bookkeeping of the
// enclosing runAndMergeResults call (it cannot reach it: the struct is local to that call). Assumed.
//@ extern func (*checkRunner).runAndMergeResults$1#runner$call(s module.CheckState) module.CheckResult
//@   modifies *
//@   ensures data.rejectErr == old(data.rejectErr) && data.quarantineErr == old(data.quarantineErr)
//@   ensures addrOf(data.setRejectErr).done == old(addrOf(data.setRejectErr).done) && addrOf(data.setQuarantineErr).done == old(addrOf(data.setQuarantineErr).done)
//@   ensures wfRes(result)
