//go:build verif

// Contracts for package remote (checked by /verif/govc; comment-only file).
package remote

//@ import mdns "github.com/miekg/dns"
//@ import x509 "crypto/x509"

// ---- C13: DANE ----
// tlsaMatch(r, c): TLSA record r matches certificate c (miekg/dns TLSA.Verify; assumed).
//@ uninterp func tlsaMatch(r mdns.TLSA, c *x509.Certificate) bool
//@ extern func (*mdns.TLSA).Verify(r *mdns.TLSA, cert *x509.Certificate) error
//@   ensures (result == nil) == tlsaMatch(*r, cert)

// X.509 chain verification is a predicate; chainOK is a ghost flag set by the verification call.
//@ ghost var chainOK bool
//@ extern func (*x509.Certificate).Verify(c *x509.Certificate, opts x509.VerifyOptions) (chains [][]*x509.Certificate, err error)
//@   modifies chainOK
//@   ensures chainOK == (err == nil)
//@ extern func crypto/x509.NewCertPool() *x509.CertPool
//@   ensures result != nil && fresh(result)
//@ extern func (*x509.CertPool).AddCert(s *x509.CertPool, cert *x509.Certificate)

//@ pure func usableRec(r mdns.TLSA) bool = r.MatchingType <= 2 && r.Selector <= 1 && (r.Usage == 2 || r.Usage == 3)
//@ pure func isEE(r mdns.TLSA) bool = usableRec(r) && r.Usage == 3
//@ pure func isTA(r mdns.TLSA) bool = usableRec(r) && r.Usage == 2
//@ rec func cntEE(rs []mdns.TLSA, n int) int = n <= 0 ? 0 : (cntEE(rs, n-1) + (isEE(rs[n-1]) ? 1 : 0))
//@ rec func cntTA(rs []mdns.TLSA, n int) int = n <= 0 ? 0 : (cntTA(rs, n-1) + (isTA(rs[n-1]) ? 1 : 0))
//@ rec func anyEE(rs []mdns.TLSA, n int, c *x509.Certificate) bool = n <= 0 ? false : (anyEE(rs, n-1, c) || (isEE(rs[n-1]) && tlsaMatch(rs[n-1], c)))
//@ rec func anyM(a Map[int,mdns.TLSA], n int, c *x509.Certificate) bool = n <= 0 ? false : (anyM(a, n-1, c) || tlsaMatch(a[n-1], c))
//@ lemma anyM-mono induction n prop C13: forall a Map[int,mdns.TLSA], n int, i int, c *x509.Certificate :: 0 <= i && i < n && tlsaMatch(a[i], c) ==> anyM(a, n, c)
//@ pure func leafOf(cs tls.ConnectionState) *x509.Certificate = cs.PeerCertificates[0]

//@ func verifyDANE
//@   prop C13 C05
//@   modifies *
//@   requires !chainOK
//@   requires connState.HandshakeComplete ==> len(connState.PeerCertificates) >= 1
//@   ensures len(recs) == 0 ==> !overridePKIX && err == nil
//@   ensures len(recs) > 0 && !connState.HandshakeComplete ==> !overridePKIX && err != nil
//@   ensures len(recs) > 0 && connState.HandshakeComplete && cntEE(recs, len(recs)) == 0 && cntTA(recs, len(recs)) == 0 ==> !overridePKIX && err == nil
//@   ensures len(recs) > 0 && connState.HandshakeComplete && anyEE(recs, len(recs), leafOf(connState)) ==> overridePKIX && err == nil
//@   ensures len(recs) > 0 && connState.HandshakeComplete && cntEE(recs, len(recs)) + cntTA(recs, len(recs)) > 0 && !anyEE(recs, len(recs), leafOf(connState)) && cntTA(recs, len(recs)) == 0 ==> err != nil
//@   ensures len(recs) > 0 && connState.HandshakeComplete && !anyEE(recs, len(recs), leafOf(connState)) && cntTA(recs, len(recs)) > 0 ==> (err == nil) == chainOK && (err == nil) == overridePKIX
//@   ensures err == nil && overridePKIX ==> anyEE(recs, len(recs), leafOf(connState)) || (cntTA(recs, len(recs)) > 0 && chainOK)
//@   loop 0 invariant len(eeRecs) == cntEE(recs, rangeindex+1) && len(taRecs) == cntTA(recs, rangeindex+1)
//@   loop 0 invariant anyM(elemsOf(eeRecs), len(eeRecs), leafOf(connState)) == anyEE(recs, rangeindex+1, leafOf(connState))
//@   loop 0 invariant forall k int :: 0 <= k && k < len(taRecs) ==> isTA(elemsOf(taRecs)[k])
//@   loop 0 invariant !chainOK
//@   loop 1 invariant !anyM(elemsOf(eeRecs), rangeindex+1, leafOf(connState)) && !chainOK
//@   loop 2 invariant !chainOK
//@   loop 3 invariant !chainOK
//@   assert-call (*x509.CertPool).AddCert #0 : $s == opts.Roots && $cert.IsCA && tlsaMatch(rec, $cert) && isTA(rec)
//@   assert-call (*x509.CertPool).AddCert #1 : $s == opts.Intermediates && !root
//@   assert-call (*x509.Certificate).Verify : $c == leafOf(connState) && $opts.DNSName == connState.ServerName && $opts.Roots != nil && $opts.Intermediates != nil && $opts.Roots != $opts.Intermediates
