//go:build verif

// Contracts for package queue (checked by /verif/govc; comment-only file).
package queue

// ---- C16: conversion for persistence and failure reports ----
//@ func toSMTPErr
//@   prop C16 C01 C18
//@   modifies *
//@   ensures err == nil ==> result == nil
//@   ensures err != nil ==> result != nil
//@   ensures err != nil && annAgrees(err) ==> coherent(result.Code, result.EnhancedCode) && (result.Code/100 == 4 || result.Code/100 == 5)
//@   ensures err != nil && annAgrees(err) && !isType(err, "*gosmtp.SMTPError") ==> (result.Code/100 == 4) == tempOrUnspec(err)
//@   ensures err != nil && !isType(err, "*gosmtp.SMTPError") ==> result.EnhancedCode[0] != 0
