//go:build verif

// Contracts for package target (checked by /verif/govc; comment-only file).
package target

// DeliveryLogger only builds a logger value: it reads the message identifier and changes nothing.
//@ func DeliveryLogger
//@   prop C01 C10 C18
//@   requires msgMeta != nil
