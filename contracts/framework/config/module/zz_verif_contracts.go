//go:build verif

// Contracts for package modconfig (checked by /verif/govc; comment-only file).
package modconfig

// ---- C16 ----
//@ func ParseRejectDirective
//@   prop C16
//@   modifies *
//@   ensures result1 == nil && len(args) <= 1 ==> coherent(result0.Code, result0.EnhancedCode)
//@   ensures result1 == nil ==> result0 != nil && (result0.Code/100 == 4 || result0.Code/100 == 5)
//@ exempt modconfig.ParseRejectDirective/literal:SMTPError#0 : with 2+ arguments both codes are operator-supplied; the computed cases are the function's own ensures clauses
