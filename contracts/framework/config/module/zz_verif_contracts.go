//go:build verif

// Contracts for package modconfig (checked by /verif/govc; comment-only file).
package modconfig

// ---- C16 ----
//@ func ParseRejectDirective
//@   prop C16
//@   modifies *
//@   ensures result1 == nil && len(args) <= 1 ==> coherent(result0.Code, result0.EnhancedCode)
//@   ensures result1 == nil ==> result0 != nil && (result0.Code/100 == 4 || result0.Code/100 == 5)
//@ exempt modconfig.ParseRejectDirective/literal:SMTPError#0 : with 2+ arguments both codes are operator-supplied; the computed cases are the function's own ensures clauses

// ---- C06: action mapping ----
// A result without a reason is returned unchanged; otherwise the configured action can only add flags; 'ignore'
// (neither flag configured) changes neither flag.
//@ func (FailAction).Apply
//@   prop C06
//@   ensures originalRes.Reason == nil ==> result == originalRes
//@   ensures originalRes.Reason != nil ==> result.Quarantine == (cfa.Quarantine || originalRes.Quarantine) && result.Reject == (cfa.Reject || originalRes.Reject)
//@   ensures originalRes.Reason != nil ==> result.Reason != nil
//@   ensures originalRes.Reason != nil && cfa.ReasonOverride == nil ==> result.Reason == originalRes.Reason
//@   ensures result.AuthResult == originalRes.AuthResult && result.Header == originalRes.Header
