//go:build verif

// Contracts for package exterrors (checked by /verif/govc; comment-only file).
package exterrors

//@ extern func errors.As(err error, target any) bool
//@   modifies *as(target, "*TemporaryErr")
//@   ensures isType(target, "*TemporaryErr") ==> result == hasTemp(err)
//@   ensures isType(target, "*TemporaryErr") && result ==> *as(target, "*TemporaryErr") == firstTemp(err)

//@ extern func (TemporaryErr).Temporary() bool
//@   ensures result == temporaryOf(recv)

//@ func IsTemporary
//@   prop C16 C01
//@   ensures result == isTemp(err)

//@ func IsTemporaryOrUnspec
//@   prop C16 C01
//@   ensures result == tempOrUnspec(err)

//@ func SMTPCode
//@   prop C16
//@   ensures result == (isTemp(err) ? temporaryCode : permanentCode)

//@ func SMTPEnchCode
//@   prop C16
//@   ensures result[0] == (isTemp(err) ? 4 : 5)
//@   ensures result[1] == code[1] && result[2] == code[2]

//@ func (*SMTPError).Temporary
//@   prop C16
//@   ensures result == (se.Code/100 == 4)

// C16: basic and enhanced code have the same class ({0,0,0} is go-smtp's "derive from the basic code"),
// and the class is 4 or 5. Checked at every composite literal of the type in the module.
//@ pure func coherent(code int, ec EnhancedCode) bool = (ec[0] == 0 && ec[1] == 0 && ec[2] == 0) || ec[0] == code/100
//@ type-invariant SMTPError C16: coherent(self.Code, self.EnhancedCode) && (self.Code/100 == 4 || self.Code/100 == 5)
//@ type-invariant smtp.SMTPError C16: coherent(self.Code, self.EnhancedCode) && (self.Code/100 == 4 || self.Code/100 == 5)
