//go:build verif

// Contracts for package parser (framework/cfgparser) (checked by /verif/govc; comment-only file).
package parser

// ---- C20: configuration parsing never crashes ----
// Crash-freedom sweep: in every function below each index, slice, nil-map write, nil dereference, type assertion
// and explicit panic is an obligation. No functional annotations are needed beyond the facts the library
// contracts provide (HasPrefix/HasSuffix byte facts, SplitN, FindAllStringSubmatch).

// macroRe has exactly one capture group: \$\(([^\$]+)\)
//@ axiom macro-regexp-one-group: numSubexp(macroRe) == 1

//@ func validateNodeName
//@   prop C20
//@   nopanic
//@ func (*parseContext).readNode
//@   prop C20
//@   nopanic
//@   requires ctx != nil && ctx.macros != nil && ctx.snippets != nil
//@   modifies *
//@   ensures ctx.macros != nil && ctx.snippets != nil
//@   loop 0 invariant ctx.macros != nil && ctx.snippets != nil
//@   loop 1 invariant ctx.macros != nil && ctx.snippets != nil
//@ func (*parseContext).isSnippet
//@   prop C20
//@   nopanic
//@   requires ctx != nil && ctx.macros != nil && ctx.snippets != nil
//@ func (*parseContext).parseAsMacro
//@   prop C20
//@   nopanic
//@   requires ctx != nil && ctx.macros != nil && ctx.snippets != nil && node != nil
//@ func (*parseContext).readNodes
//@   prop C20
//@   nopanic
//@   requires ctx != nil && ctx.macros != nil && ctx.snippets != nil
//@   modifies *
//@   ensures ctx.macros != nil && ctx.snippets != nil
//@   loop 0 invariant ctx.macros != nil && ctx.snippets != nil
//@ func readTree
//@   prop C20
//@   nopanic
//@   modifies *
//@ func Read
//@   prop C20
//@   nopanic
//@   modifies *
//@ func (*parseContext).expandImports
//@   prop C20
//@   nopanic
//@   requires ctx != nil && ctx.macros != nil && ctx.snippets != nil
//@   modifies *
//@   ensures ctx.macros != nil && ctx.snippets != nil
//@   loop 0 invariant ctx.macros != nil && ctx.snippets != nil
//@ func (*parseContext).resolveImport
//@   prop C20
//@   nopanic
//@   requires ctx != nil && ctx.macros != nil && ctx.snippets != nil
//@   modifies *
//@   ensures ctx.macros != nil && ctx.snippets != nil
//@   loop 0 invariant ctx.macros != nil && ctx.snippets != nil
//@   loop 1 invariant ctx.macros != nil && ctx.snippets != nil
//@ func (*parseContext).expandMacros
//@   prop C20
//@   nopanic
//@   requires ctx != nil && ctx.macros != nil && ctx.snippets != nil && node != nil
//@   modifies Node.Args, allElems("Node")
//@   ensures ctx.macros != nil && ctx.snippets != nil
//@   loop 0 invariant ctx.macros != nil && ctx.snippets != nil
//@   loop 1 invariant ctx.macros != nil && ctx.snippets != nil
//@ func (*parseContext).expandSingleValueMacro
//@   prop C20
//@   nopanic
//@   requires ctx != nil && ctx.macros != nil && ctx.snippets != nil
//@   ensures ctx.macros != nil && ctx.snippets != nil
//@ func expandEnvironment
//@   prop C20
//@   nopanic
//@   modifies *
//@ func removeUnexpandedEnvvars
//@   prop C20
//@   nopanic
//@   modifies *
//@ func buildEnvReplacer
//@   prop C20
//@   nopanic
//@   modifies *
//@ func NodeErr
//@   prop C20
//@   nopanic
