//go:build verif

// Contracts for the interfaces of package module (checked by /verif/govc; comment-only file).
package module

// ---- C06: verdict accounting for check results ----
// gRejectN / gQuarN count the check results produced so far that carry Reject, resp. Quarantine without Reject.
// Contracts speak about increments (gRejectN > old(gRejectN): "some check rejected during this call").
//@ ghost var gRejectN int
//@ ghost var gQuarN int
// gRcptCalls counts CheckRcpt calls (de-duplication is stated as "no call when the pair is already recorded").
//@ ghost var gRcptCalls int
// wfRes: a result with a flag set carries a reason (what FailAction.Apply produces from a result with a reason;
// assumed for every check implementation).
//@ pure func wfRes(r CheckResult) bool = (r.Reject || r.Quarantine) ==> r.Reason != nil
//@ extern func (CheckState).CheckConnection(s CheckState, ctx context.Context) CheckResult
//@   modifies gRejectN, gQuarN
//@   ensures gRejectN == old(gRejectN) + (result.Reject ? 1 : 0) && gQuarN == old(gQuarN) + (result.Quarantine && !result.Reject ? 1 : 0)
//@   ensures wfRes(result)
//@ extern func (CheckState).CheckSender(s CheckState, ctx context.Context, mailFrom string) CheckResult
//@   modifies gRejectN, gQuarN
//@   ensures gRejectN == old(gRejectN) + (result.Reject ? 1 : 0) && gQuarN == old(gQuarN) + (result.Quarantine && !result.Reject ? 1 : 0)
//@   ensures wfRes(result)
//@ extern func (CheckState).CheckRcpt(s CheckState, ctx context.Context, rcptTo string) CheckResult
//@   modifies gRejectN, gQuarN, gRcptCalls
//@   ensures gRejectN == old(gRejectN) + (result.Reject ? 1 : 0) && gQuarN == old(gQuarN) + (result.Quarantine && !result.Reject ? 1 : 0)
//@   ensures wfRes(result)
//@   ensures gRcptCalls == old(gRcptCalls) + 1
//@ extern func (CheckState).CheckBody(s CheckState, ctx context.Context, header textproto.Header, body buffer.Buffer) CheckResult
//@   modifies gRejectN, gQuarN
//@   ensures gRejectN == old(gRejectN) + (result.Reject ? 1 : 0) && gQuarN == old(gQuarN) + (result.Quarantine && !result.Reject ? 1 : 0)
//@   ensures wfRes(result)
//@ extern func (CheckState).Close(s CheckState) error
//@ extern func (Check).CheckStateForMsg(c Check, ctx context.Context, msgMeta *MsgMetadata) (st CheckState, err error)
//@   ensures err == nil ==> st != nil

// ---- modifiers (used by C06/C04/C03): a modifier may rewrite the header it is given; it does not touch the state of
// the pipeline, of the check runner or the message metadata flags (assumed for every implementation).
//@ extern func (ModifierState).RewriteBody(m ModifierState, ctx context.Context, h *textproto.Header, body buffer.Buffer) error
//@   modifies *h
//@ extern func (ModifierState).RewriteSender(m ModifierState, ctx context.Context, mailFrom string) (newFrom string, err error)
//@ extern func (ModifierState).RewriteRcpt(m ModifierState, ctx context.Context, rcptTo string) (newTo []string, err error)
//@ extern func (ModifierState).Close(m ModifierState) error

// ---- delivery targets: calls on a downstream delivery do not touch the state of the calling pipeline, queue or
// session (assumed for every implementation; the typestate of deliveries is added under C03).
//@ extern func (Delivery).AddRcpt(d Delivery, ctx context.Context, rcptTo string, opts smtp.RcptOptions) error
//@ extern func (Delivery).Body(d Delivery, ctx context.Context, header textproto.Header, body buffer.Buffer) error
//@ extern func (Delivery).Abort(d Delivery, ctx context.Context) error
//@ extern func (Delivery).Commit(d Delivery, ctx context.Context) error
//@ extern func (PartialDelivery).BodyNonAtomic(d PartialDelivery, ctx context.Context, c StatusCollector, header textproto.Header, body buffer.Buffer)
//@ extern func (StatusCollector).SetStatus(c StatusCollector, rcptTo string, err error)
//@ extern func (DeliveryTarget).Start(t DeliveryTarget, ctx context.Context, msgMeta *MsgMetadata, mailFrom string) (d Delivery, err error)
//@   ensures err == nil ==> d != nil

// ---- tables (C04, C14, C15): a table is a function of (table, key) for the duration of a call (assumption A-iface).
//@ uninterp func tblOK(t Table, key string) bool
//@ uninterp func tblErr(t Table, key string) error
//@ uninterp func tblVal(t Table, key string) string
//@ extern func (Table).Lookup(t Table, ctx context.Context, s string) (val string, ok bool, err error)
//@   ensures ok == tblOK(t, s) && err == tblErr(t, s) && val == tblVal(t, s)
//@ pure func tblHit(t Table, key string) bool = tblErr(t, key) == nil && tblOK(t, key)
