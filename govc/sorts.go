package main

// Mapping of Go types to SMT sorts, zero values, datatype declarations.

import (
	"fmt"
	"go/types"
	"sort"
	"strings"
)

// Term is an SMT-LIB term together with its sort and (when known) Go type.
type Term struct {
	S    string
	Sort string
	T    types.Type // may be nil for spec-only terms
}

func (t Term) String() string { return t.S }

// Sorts holds the sort universe for one SMT context (one function under verification).
type Sorts struct {
	decls    []string          // sort / datatype / function declarations, in order
	declared map[string]bool   // names already declared
	structs  map[string]*types.Struct
	names    map[string]string // types.Type string -> sort name
	tags     map[string]int    // dynamic type tag per type string
	tagTypes []types.Type
	strLits  map[string]string // literal -> const name
	strOrder []string
	axioms   []string
	funcs    map[string]bool
	constArrs map[string]string
	lateDecls []string
}

func NewSorts() *Sorts {
	s := &Sorts{declared: map[string]bool{}, structs: map[string]*types.Struct{}, names: map[string]string{},
		tags: map[string]int{}, strLits: map[string]string{}, funcs: map[string]bool{}}
	s.decls = append(s.decls,
		"(declare-sort Str 0)",
		"(declare-fun len_s (Str) Int)",
		"(declare-fun at_s (Str Int) Int)",
		"(declare-fun concat_s (Str Str) Str)",
		"(declare-fun substr_s (Str Int Int) Str)",
		"(declare-sort Float 0)",
		"(declare-datatypes ((Iface 0)) (((mkIface (itag Int) (ival Int)))))",
		"(declare-datatypes ((Slice 0)) (((mkSlice (sarr Int) (soff Int) (slen Int) (scap Int)))))",
		"(declare-datatypes ((Unit 0)) (((unit))))",
	)
	return s
}

func sanitize(s string) string {
	var b strings.Builder
	for _, r := range s {
		switch {
		case r >= 'a' && r <= 'z', r >= 'A' && r <= 'Z', r >= '0' && r <= '9', r == '_':
			b.WriteRune(r)
		case r == '.' || r == '/':
			b.WriteRune('_')
		case r == '*':
			b.WriteString("P")
		case r == '[':
			b.WriteString("L")
		case r == ']':
			b.WriteString("R")
		default:
			b.WriteString("_")
		}
	}
	return b.String()
}

func shortTypeName(t types.Type) string {
	s := types.TypeString(t, func(p *types.Package) string {
		path := p.Path()
		path = strings.TrimPrefix(path, "github.com/foxcpp/maddy/")
		path = strings.TrimPrefix(path, "github.com/")
		return path
	})
	return s
}

// typeKey is a stable identifier for a type, used in heap keys.
func typeKey(t types.Type) string { return sanitize(shortTypeName(types.Unalias(t))) }

func (s *Sorts) declFun(name, sig string) {
	if s.funcs[name] {
		return
	}
	s.funcs[name] = true
	s.decls = append(s.decls, fmt.Sprintf("(declare-fun %s %s)", name, sig))
}

// SortOf returns the SMT sort for a Go type, declaring datatypes on demand.
func (s *Sorts) SortOf(t types.Type) string {
	if t == nil {
		return "Int"
	}
	t = types.Unalias(t)
	switch u := t.(type) {
	case *types.Named:
		under := t.Underlying()
		if st, ok := under.(*types.Struct); ok {
			return s.structSort(typeKey(t), st)
		}
		if _, ok := under.(*types.Interface); ok {
			return "Iface"
		}
		return s.SortOf(under)
	case *types.Basic:
		switch {
		case u.Info()&types.IsBoolean != 0:
			return "Bool"
		case u.Info()&types.IsInteger != 0:
			return "Int"
		case u.Info()&types.IsString != 0:
			return "Str"
		case u.Info()&types.IsFloat != 0, u.Info()&types.IsComplex != 0:
			return "Float"
		case u.Kind() == types.UnsafePointer:
			return "Int"
		case u.Kind() == types.UntypedNil:
			return "Int"
		}
		return "Int"
	case *types.Pointer, *types.Map, *types.Chan, *types.Signature:
		return "Int"
	case *types.Interface:
		return "Iface"
	case *types.Slice:
		return "Slice"
	case *types.Struct:
		return s.structSort("anon_"+typeKey(t), u)
	case *types.Array:
		return s.arraySort(u)
	case *types.Tuple:
		return "Unit"
	case *types.TypeParam:
		return "Int"
	}
	return "Int"
}

func (s *Sorts) arraySort(a *types.Array) string {
	el := s.SortOf(a.Elem())
	if a.Len() <= 4 {
		name := fmt.Sprintf("Arr%d_%s", a.Len(), sanitize(el))
		if !s.declared[name] {
			s.declared[name] = true
			var fs []string
			for i := int64(0); i < a.Len(); i++ {
				fs = append(fs, fmt.Sprintf("(%s_%d %s)", name, i, el))
			}
			if a.Len() == 0 {
				s.decls = append(s.decls, fmt.Sprintf("(declare-datatypes ((%s 0)) (((mk_%s))))", name, name))
			} else {
				s.decls = append(s.decls, fmt.Sprintf("(declare-datatypes ((%s 0)) (((mk_%s %s))))", name, name, strings.Join(fs, " ")))
			}
		}
		return name
	}
	return fmt.Sprintf("(Array Int %s)", el)
}

func (s *Sorts) structSort(name string, st *types.Struct) string {
	name = "S_" + name
	if s.declared[name] {
		return name
	}
	s.declared[name] = true
	s.structs[name] = st
	// declare field sorts first (recursion through value-struct fields only; pointers are Int)
	var fs []string
	for i := 0; i < st.NumFields(); i++ {
		f := st.Field(i)
		fs = append(fs, fmt.Sprintf("(%s__%s %s)", name, fieldAcc(st, i), s.SortOf(f.Type())))
	}
	if len(fs) == 0 {
		s.decls = append(s.decls, fmt.Sprintf("(declare-datatypes ((%s 0)) (((mk_%s))))", name, name))
	} else {
		s.decls = append(s.decls, fmt.Sprintf("(declare-datatypes ((%s 0)) (((mk_%s %s))))", name, name, strings.Join(fs, " ")))
	}
	return name
}

// unaliasDeep removes aliases at the top and below one pointer level (enough for dynamic type tags).
func unaliasDeep(t types.Type) types.Type {
	t = types.Unalias(t)
	if p, ok := t.(*types.Pointer); ok {
		return types.NewPointer(types.Unalias(p.Elem()))
	}
	return t
}

// fieldAcc is the accessor suffix for field i (blank fields get their index).
func fieldAcc(st *types.Struct, i int) string {
	n := st.Field(i).Name()
	if n == "_" {
		return fmt.Sprintf("blank%d", i)
	}
	return sanitize(n)
}

// Zero returns the zero value term for a Go type.
func (s *Sorts) Zero(t types.Type) Term {
	so := s.SortOf(t)
	return Term{S: s.zeroOfSort(so, t), Sort: so, T: t}
}

func (s *Sorts) zeroOfSort(so string, t types.Type) string {
	switch so {
	case "Int":
		return "0"
	case "Bool":
		return "false"
	case "Str":
		return s.StrLit("")
	case "Iface":
		return "(mkIface 0 0)"
	case "Slice":
		return "(mkSlice 0 0 0 0)"
	case "Float":
		s.declFun("float_zero", "() Float")
		return "float_zero"
	case "Unit":
		return "unit"
	}
	if strings.HasPrefix(so, "(Array ") {
		return s.ConstArray(so, s.zeroOfSort(arrayRange(so), nil))
	}
	if t != nil {
		switch u := t.Underlying().(type) {
		case *types.Struct:
			if u.NumFields() == 0 {
				return "mk_" + so
			}
			var parts []string
			for i := 0; i < u.NumFields(); i++ {
				parts = append(parts, s.Zero(u.Field(i).Type()).S)
			}
			return fmt.Sprintf("(mk_%s %s)", so, strings.Join(parts, " "))
		case *types.Array:
			z := s.Zero(u.Elem())
			if u.Len() <= 4 {
				if u.Len() == 0 {
					return "mk_" + so
				}
				var parts []string
				for i := int64(0); i < u.Len(); i++ {
					parts = append(parts, z.S)
				}
				return fmt.Sprintf("(mk_%s %s)", so, strings.Join(parts, " "))
			}
			return s.ConstArray(so, z.S)
		}
	}
	// unknown: uninterpreted constant
	n := "zero_" + sanitize(so)
	s.declFun(n, "() "+so)
	return n
}

// ConstArray returns a constant array term. cvc5 only accepts values as the element of (as const ...), so for
// elements that mention uninterpreted constants (string literals) a named array with a quantified definition is used.
func (s *Sorts) ConstArray(arraySort, elem string) string {
	if !strings.Contains(elem, "str!") && !strings.Contains(elem, "zero_") && !strings.Contains(elem, "float_") && !strings.Contains(elem, "carr!") {
		return fmt.Sprintf("((as const %s) %s)", arraySort, elem)
	}
	key := arraySort + "|" + elem
	if n, ok := s.constArrs[key]; ok {
		return n
	}
	if s.constArrs == nil {
		s.constArrs = map[string]string{}
	}
	n := fmt.Sprintf("carr!%d", len(s.constArrs))
	s.constArrs[key] = n
	s.lateDecls = append(s.lateDecls, fmt.Sprintf("(declare-const %s %s)", n, arraySort))
	s.lateDecls = append(s.lateDecls, fmt.Sprintf("(assert (forall ((i %s)) (! (= (select %s i) %s) :pattern ((select %s i)))))", arrayDomain(arraySort), n, elem, n))
	return n
}

// StrLit returns the constant standing for a string literal; facts about it are emitted in Prelude.
func (s *Sorts) StrLit(v string) string {
	if n, ok := s.strLits[v]; ok {
		return n
	}
	n := fmt.Sprintf("str!%d", len(s.strLits))
	s.strLits[v] = n
	s.strOrder = append(s.strOrder, v)
	return n
}

// TagOf returns the dynamic-type tag for a concrete type.
func (s *Sorts) TagOf(t types.Type) int {
	t = unaliasDeep(t)
	k := types.TypeString(t, nil)
	if n, ok := s.tags[k]; ok {
		return n
	}
	n := len(s.tags) + 1
	s.tags[k] = n
	s.tagTypes = append(s.tagTypes, t)
	return n
}

// Box turns a value of concrete type t into the Int payload of an interface value.
func (s *Sorts) Box(v Term, t types.Type) string {
	so := s.SortOf(t)
	if so == "Int" {
		return v.S
	}
	n := sanitize(so)
	s.declFun("box_"+n, fmt.Sprintf("(%s) Int", so))
	s.declFun("unbox_"+n, fmt.Sprintf("(Int) %s", so))
	s.axioms = append(s.axioms, fmt.Sprintf("(= (unbox_%s (box_%s %s)) %s)", n, n, v.S, v.S))
	return fmt.Sprintf("(box_%s %s)", n, v.S)
}

func (s *Sorts) Unbox(payload string, t types.Type) string {
	so := s.SortOf(t)
	if so == "Int" {
		return payload
	}
	n := sanitize(so)
	s.declFun("box_"+n, fmt.Sprintf("(%s) Int", so))
	s.declFun("unbox_"+n, fmt.Sprintf("(Int) %s", so))
	return fmt.Sprintf("(unbox_%s %s)", n, payload)
}

// Prelude emits all declarations plus facts about string literals.
func (s *Sorts) Prelude() []string {
	out := append([]string{}, s.decls...)
	// string literal constants
	for _, v := range s.strOrder {
		out = append(out, fmt.Sprintf("(declare-const %s Str)", s.strLits[v]))
	}
	var lits []string
	for _, v := range s.strOrder {
		n := s.strLits[v]
		lits = append(lits, n)
		out = append(out, fmt.Sprintf("(assert (= (len_s %s) %d))", n, len(v)))
		if len(v) <= 24 {
			for i := 0; i < len(v); i++ {
				out = append(out, fmt.Sprintf("(assert (= (at_s %s %d) %d))", n, i, v[i]))
			}
		}
	}
	if len(lits) > 1 {
		out = append(out, fmt.Sprintf("(assert (distinct %s))", strings.Join(lits, " ")))
	}
	// the spec predicate allASCII (prelude/strings.spec) is decided for literals by the generator
	if s.funcs["sf_allASCII"] {
		for _, v := range s.strOrder {
			ascii := true
			for i := 0; i < len(v); i++ {
				if v[i] >= 0x80 {
					ascii = false
				}
			}
			out = append(out, fmt.Sprintf("(assert (= (sf_allASCII %s) %v))", s.strLits[v], ascii))
		}
	}
	out = append(out, s.lateDecls...)
	return out
}

// Axioms returns the instance axioms (box/unbox) to be asserted after all constants are declared.
func (s *Sorts) Axioms() []string {
	ax := append([]string{}, s.axioms...)
	sort.Strings(ax)
	var out []string
	prev := ""
	for _, a := range ax {
		if a != prev {
			out = append(out, a)
		}
		prev = a
	}
	return out
}

func intRange(t types.Type) (lo, hi string, ok bool) {
	b, isB := t.Underlying().(*types.Basic)
	if !isB || b.Info()&types.IsInteger == 0 {
		return "", "", false
	}
	switch b.Kind() {
	case types.Int, types.Int64, types.UntypedInt:
		return "(- 9223372036854775808)", "9223372036854775807", true
	case types.Int32, types.UntypedRune:
		return "(- 2147483648)", "2147483647", true
	case types.Int16:
		return "(- 32768)", "32767", true
	case types.Int8:
		return "(- 128)", "127", true
	case types.Uint, types.Uint64, types.Uintptr:
		return "0", "18446744073709551615", true
	case types.Uint32:
		return "0", "4294967295", true
	case types.Uint16:
		return "0", "65535", true
	case types.Uint8:
		return "0", "255", true
	}
	return "", "", false
}
