package main

import (
	"fmt"
	"go/token"

	"golang.org/x/tools/go/ssa"
)

// checkFieldGuards: assert-store clauses of the function under contract, at every store to a struct field of the
// given name ($obj: pointer to the struct, $value: the value stored, $old: the value the field held before).
func (v *FnVC) checkFieldGuards(i *ssa.Store, l *Loc, val Term, p token.Pos) {
	if v.C == nil || len(v.C.StoreAsserts) == 0 {
		return
	}
	fa, ok := i.Addr.(*ssa.FieldAddr)
	if !ok {
		return
	}
	st, ok := structOf(deref(fa.X.Type()))
	if !ok {
		return
	}
	field := st.Field(fa.Field).Name()
	for _, ua := range v.C.StoreAsserts {
		if ua.Callee != field {
			continue
		}
		if len(ua.Props) > 0 && !hasProp(ua.Props, currentProp) {
			continue
		}
		env := v.baseEnv()
		env.cur = true
		blk, cst := v.curBlock, v.cur
		env.lookup = func(n string) (Term, bool) { return v.localByNameAt(n, blk, i, cst) }
		env.vars["$obj"] = v.val(fa.X)
		env.vars["$value"] = val
		env.vars["$old"] = v.load(cst, l)
		f := v.evalBool(ua.C.E, env)
		v.oblige("assert-store:"+field, f, fmt.Sprintf("at every store to field .%s: %s", field, ua.C.Text), p)
	}
}
// checkMapGuards: assert-update clauses of the function under contract, at every map update whose map operand was
// loaded from a struct field of the given name.
func (v *FnVC) checkMapGuards(i *ssa.MapUpdate, m, k Term) {
	if v.C == nil || len(v.C.UpdateAsserts) == 0 {
		return
	}
	field := ""
	if ld, ok := i.Map.(*ssa.UnOp); ok {
		if fa, ok := ld.X.(*ssa.FieldAddr); ok {
			if st, ok := structOf(deref(fa.X.Type())); ok {
				field = st.Field(fa.Field).Name()
			}
		}
	}
	if f, ok := i.Map.(*ssa.Field); ok {
		if st, ok := structOf(f.X.Type()); ok {
			field = st.Field(f.Field).Name()
		}
	}
	for _, ua := range v.C.UpdateAsserts {
		if ua.Callee != field {
			continue
		}
		env := v.baseEnv()
		env.cur = true
		blk, st := v.curBlock, v.cur
		env.lookup = func(n string) (Term, bool) { return v.localByNameAt(n, blk, i, st) }
		env.vars["$map"] = m
		env.vars["$key"] = k
		env.vars["$value"] = v.val(i.Value)
		f := v.evalBool(ua.C.E, env)
		v.oblige("assert-update:"+field, f, fmt.Sprintf("at every update of a map stored in .%s: %s", field, ua.C.Text), i.Pos())
	}
}


// checkLoadGuards: assert-load clauses at every load through a pointer to a struct field of the given name.
func (v *FnVC) checkLoadGuards(i *ssa.UnOp) {
	if v.C == nil || len(v.C.LoadAsserts) == 0 {
		return
	}
	fa, ok := i.X.(*ssa.FieldAddr)
	if !ok {
		return
	}
	st, ok := structOf(deref(fa.X.Type()))
	if !ok {
		return
	}
	field := st.Field(fa.Field).Name()
	for _, ua := range v.C.LoadAsserts {
		if ua.Callee != field {
			continue
		}
		env := v.baseEnv()
		env.cur = true
		blk, cst := v.curBlock, v.cur
		env.lookup = func(n string) (Term, bool) { return v.localByNameAt(n, blk, i, cst) }
		env.vars["$obj"] = v.val(fa.X)
		f := v.evalBool(ua.C.E, env)
		v.oblige("assert-load:"+field, f, fmt.Sprintf("at every read of field .%s: %s", field, ua.C.Text), i.Pos())
	}
}
