package main

import (
	"go/token"

	"golang.org/x/tools/go/ssa"
)

func (v *FnVC) assumeTypeInv(t Term, env *Env, depth int)               {}
func (v *FnVC) assumeTypeInvG(t Term, env *Env, depth int, g string)    {}
func (v *FnVC) checkTypeInv(t Term, env *Env, what string, p token.Pos) {}
func (v *FnVC) checkFieldGuards(l *Loc, val Term, p token.Pos)          {}
func (v *FnVC) checkMapGuards(i *ssa.MapUpdate, m, k Term)              {}

