package main

import (
	"go/token"

	"golang.org/x/tools/go/ssa"
)

func (v *FnVC) checkFieldGuards(l *Loc, val Term, p token.Pos)          {}
func (v *FnVC) checkMapGuards(i *ssa.MapUpdate, m, k Term)              {}

