package main

import (
	"context"
	"encoding/json"
	"fmt"
	"os"
	"os/exec"
	"path/filepath"
	"regexp"
	"strconv"
	"strings"
	"time"
)

// Bounded stand-ins: for a function that cannot be brought within the generator's reach, an exhaustive check of the
// real function over a stated finite input space may stand in. It is run by the property's check, reported in the
// evidence under coverage.bounded_checks, labelled bounded, and never counted among the obligations proved.
// /verif/bounded/index.json lists them; the test is injected into the package with `go test -overlay`, prints
// "BOUNDED: evaluations=N violations=M" and a line "BOUNDED-VIOLATION: <what>" per (first few) failing input.
type BoundedCheck struct {
	Prop      string   `json:"prop"`
	Name      string   `json:"name"`
	Pkg       string   `json:"pkg"`
	Test      string   `json:"test"`
	Run       string   `json:"run"`
	Bound     string   `json:"bound"`
	Functions []string `json:"functions"`
}

type BoundedResult struct {
	Name        string   `json:"name"`
	Functions   []string `json:"functions"`
	Bound       string   `json:"bound"`
	Evaluations int      `json:"evaluations"`
	Violations  []string `json:"violations,omitempty"`
	Status      string   `json:"status"` // held | violated | broken
	Label       string   `json:"label"`
	Cmd         string   `json:"cmd"`
	Output      string   `json:"output,omitempty"`
}

func loadBounded(verif, prop string) []BoundedCheck {
	var idx, out []BoundedCheck
	data, err := os.ReadFile(filepath.Join(verif, "bounded", "index.json"))
	if err != nil {
		return nil
	}
	json.Unmarshal(data, &idx)
	for _, b := range idx {
		if b.Prop == prop {
			out = append(out, b)
		}
	}
	return out
}

var evalRe = regexp.MustCompile(`BOUNDED: evaluations=(\d+)`)

func runBounded(b BoundedCheck, repo, verif string) *BoundedResult {
	r := &BoundedResult{Name: b.Name, Functions: b.Functions, Bound: b.Bound, Label: "bounded (exhaustive over the stated finite space; NOT a proof, not counted among discharged obligations)"}
	tmp, err := os.MkdirTemp("", "govc-bounded-")
	if err != nil {
		r.Status, r.Output = "broken", err.Error()
		return r
	}
	defer os.RemoveAll(tmp)
	ov := map[string]interface{}{"Replace": map[string]string{
		filepath.Join(repo, b.Pkg, "zz_verifbounded_test.go"): filepath.Join(verif, "replay_tmpl", b.Test),
	}}
	data, _ := json.Marshal(ov)
	ovPath := filepath.Join(tmp, "overlay.json")
	os.WriteFile(ovPath, data, 0o644)
	ctx, cancel := context.WithTimeout(context.Background(), 300*time.Second)
	defer cancel()
	args := []string{"test", "-v", "-overlay", ovPath, "-vet=off", "-count=1", "-timeout", "240s", "-run", b.Run, "./" + b.Pkg + "/"}
	cmd := exec.CommandContext(ctx, "go", args...)
	cmd.Dir = repo
	cmd.Env = append(os.Environ(), "GOFLAGS=-mod=mod", "GOPROXY=off", "GOSUMDB=off", "GOTOOLCHAIN=local")
	out, err := cmd.CombinedOutput()
	r.Cmd = "cd " + repo + " && go " + strings.Join(args, " ")
	s := string(out)
	if m := evalRe.FindStringSubmatch(s); m != nil {
		r.Evaluations, _ = strconv.Atoi(m[1])
	}
	for _, l := range strings.Split(s, "\n") {
		if strings.HasPrefix(l, "BOUNDED-VIOLATION:") {
			r.Violations = append(r.Violations, strings.TrimSpace(strings.TrimPrefix(l, "BOUNDED-VIOLATION:")))
		}
	}
	switch {
	case len(r.Violations) > 0:
		r.Status = "violated"
		r.Output = tail(s, 3000)
	case err != nil || r.Evaluations == 0:
		r.Status = "broken"
		r.Output = tail(s, 3000)
	default:
		r.Status = "held"
	}
	return r
}

func boundedReplayFile(verif, prop string, r *BoundedResult) string {
	dir := filepath.Join(verif, "replays", prop)
	os.MkdirAll(dir, 0o755)
	path := filepath.Join(dir, "bounded_"+sanitize(r.Name)+".json")
	writeJSON(path, map[string]interface{}{
		"property": prop, "bounded_check": r.Name, "functions": r.Functions, "bound": r.Bound,
		"failing_inputs": r.Violations, "cmd": r.Cmd, "output": r.Output,
		"note": fmt.Sprintf("bounded stand-in %s: the real functions were run on every input of the stated space; the inputs listed fail", r.Name),
	})
	return path
}
