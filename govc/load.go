package main

// World: loaded packages, SSA program, contract files and lookups.

import (
	"sync"
	"fmt"
	"go/token"
	"go/types"
	"os"
	"path/filepath"
	"sort"
	"strings"

	"golang.org/x/tools/go/packages"
	"golang.org/x/tools/go/ssa"
	"golang.org/x/tools/go/ssa/ssautil"
)

type World struct {
	pureCache map[*ssa.Function]int // purity.go: 1 pure, 2 impure, 3 in progress
	RepoDir   string
	VerifDir  string
	Module    string
	Fset      *token.FileSet
	Pkgs      []*packages.Package
	Prog      *ssa.Program
	SSAPkgs   map[string]*ssa.Package
	AllTypes  map[string]*types.Package
	Files     map[string]*ContractFile // by package path (or prelude name)
	Contracts map[string]*FuncContract // canonical name -> contract
	specFuncs map[string]*SpecFunc
	ghosts    map[string]*GhostField // typeKey.name
	ghostVars map[string]*GhostField
	effFree   []string
	Overlay   map[string][]byte
	ContractSources map[string]string // pkg path -> where the contract file was read from
	typeInvs map[string][]*TypeInv
	Aliases map[string]string
	mutableField map[string]bool
	scannedPkg map[string]bool
	initOnlyMu sync.Once
}

const contractFileName = "zz_verif_contracts.go"

// contractDirs lists package directories (relative to module root) that have a contract file in the mirror.
func mirrorContractFiles(verifDir string) map[string]string {
	out := map[string]string{}
	root := filepath.Join(verifDir, "contracts")
	filepath.Walk(root, func(p string, info os.FileInfo, err error) error {
		if err == nil && !info.IsDir() && info.Name() == contractFileName {
			rel, _ := filepath.Rel(root, filepath.Dir(p))
			out[rel] = p
		}
		return nil
	})
	return out
}

// contractPathFor returns the contract file for a package dir (relative), preferring the copy in the repository.
func contractPathFor(repoDir, verifDir, rel string) (string, bool) {
	// the mirror under /verif/contracts is authoritative; the copy committed in the repository (tools/sync_contracts.sh)
	// is used when the mirror has none
	p := filepath.Join(verifDir, "contracts", rel, contractFileName)
	if _, err := os.Stat(p); err == nil {
		return p, true
	}
	p = filepath.Join(repoDir, rel, contractFileName)
	if _, err := os.Stat(p); err == nil {
		return p, true
	}
	return "", false
}

func LoadWorld(repoDir, verifDir string, relPkgs []string, overlay map[string][]byte) (*World, error) {
	w := &World{RepoDir: repoDir, VerifDir: verifDir, Module: "github.com/foxcpp/maddy", SSAPkgs: map[string]*ssa.Package{},
		AllTypes: map[string]*types.Package{}, Files: map[string]*ContractFile{}, Contracts: map[string]*FuncContract{},
		specFuncs: map[string]*SpecFunc{}, ghosts: map[string]*GhostField{}, ghostVars: map[string]*GhostField{}, Overlay: overlay,
		ContractSources: map[string]string{}}
	w.Fset = token.NewFileSet()
	var patterns []string
	for _, r := range relPkgs {
		patterns = append(patterns, "./"+r)
	}
	cfg := &packages.Config{
		Mode:       packages.NeedName | packages.NeedFiles | packages.NeedCompiledGoFiles | packages.NeedImports | packages.NeedTypes | packages.NeedTypesSizes | packages.NeedSyntax | packages.NeedTypesInfo | packages.NeedDeps,
		Dir:        repoDir,
		Fset:       w.Fset,
		BuildFlags: []string{"-tags=verif"},
		Env:        append(os.Environ(), "GOFLAGS=-mod=mod", "GOPROXY=off", "GOSUMDB=off", "GOTOOLCHAIN=local"),
		Overlay:    overlay,
	}
	// NeedDeps with NeedSyntax would type-check all deps from source; restrict: use LoadSyntax semantics
	cfg.Mode = packages.LoadSyntax
	pkgs, err := packages.Load(cfg, patterns...)
	if err != nil {
		return nil, err
	}
	var errs []string
	for _, p := range pkgs {
		for _, e := range p.Errors {
			errs = append(errs, e.Error())
		}
	}
	if len(errs) > 0 {
		return nil, fmt.Errorf("package errors:\n%s", strings.Join(errs, "\n"))
	}
	w.Pkgs = pkgs
	prog, spkgs := ssautil.Packages(pkgs, ssa.GlobalDebug|ssa.BareInits)
	prog.Build()
	w.Prog = prog
	for i, p := range pkgs {
		if spkgs[i] != nil {
			w.SSAPkgs[p.PkgPath] = spkgs[i]
		}
	}
	var walk func(p *types.Package)
	walk = func(p *types.Package) {
		if p == nil || w.AllTypes[p.Path()] != nil {
			return
		}
		w.AllTypes[p.Path()] = p
		for _, q := range p.Imports() {
			walk(q)
		}
	}
	for _, p := range pkgs {
		walk(p.Types)
	}
	// contract files: all packages in the mirror or repo that are loaded; plus preludes
	preludes, _ := filepath.Glob(filepath.Join(verifDir, "prelude", "*.spec"))
	sort.Strings(preludes)
	for _, pf := range preludes {
		name := "prelude:" + strings.TrimSuffix(filepath.Base(pf), ".spec")
		cf, err := ParseContractFile(pf, name)
		if err != nil {
			return nil, err
		}
		w.Files[name] = cf
	}
	// contract files of every module package known in the mirror (contracts of callees in other packages are needed too)
	rels := map[string]bool{}
	for rel := range mirrorContractFiles(verifDir) {
		rels[rel] = true
	}
	for _, p := range pkgs {
		rels[strings.TrimPrefix(strings.TrimPrefix(p.PkgPath, w.Module), "/")] = true
	}
	var relList []string
	for r := range rels {
		relList = append(relList, r)
	}
	sort.Strings(relList)
	for _, rel := range relList {
		path, ok := contractPathFor(repoDir, verifDir, rel)
		if !ok {
			continue
		}
		pkgPath := w.Module + "/" + rel
		var cf *ContractFile
		if data, ok := overlay[path]; ok {
			cf, err = ParseContractText(string(data), path, pkgPath)
		} else {
			cf, err = ParseContractFile(path, pkgPath)
		}
		if err != nil {
			return nil, err
		}
		w.Files[pkgPath] = cf
		w.ContractSources[pkgPath] = path
	}
	// index
	var fnames []string
	for n := range w.Files {
		fnames = append(fnames, n)
	}
	sort.Strings(fnames)
	w.Aliases = map[string]string{}
	for _, n := range fnames {
		for a, p := range w.Files[n].Imports {
			w.Aliases[a] = p
		}
	}
	for _, n := range fnames {
		cf := w.Files[n]
		for _, sf := range cf.SpecFuncs {
			if _, dup := w.specFuncs[sf.Name]; dup {
				return nil, fmt.Errorf("duplicate spec function %s", sf.Name)
			}
			w.specFuncs[sf.Name] = sf
		}
		for _, g := range cf.GhostVars {
			w.ghostVars[g.Name] = g
		}
		w.effFree = append(w.effFree, cf.EffectFree...)
	}
	for _, n := range fnames {
		cf := w.Files[n]
		from := w.AllTypes[cf.Pkg]
		for _, g := range cf.Ghosts {
			t, _ := w.resolveTypeIn(g.Type, cf)
			if t == nil {
				// package not loaded in this run: ignore
				continue
			}
			w.ghosts[typeKey(t)+"."+g.Name] = g
		}
		for _, fc := range cf.Funcs {
			cn := w.canonName(fc.Name, cf, from)
			if cn == "" {
				continue // refers to a package that is not loaded
			}
			if _, dup := w.Contracts[cn]; dup {
				return nil, fmt.Errorf("duplicate contract for %s", cn)
			}
			w.Contracts[cn] = fc
		}
	}
	w.indexTypeInvs()
	return w, nil
}

func (w *World) resolveTypeIn(s string, cf *ContractFile) (types.Type, string) {
	from := w.AllTypes[cf.Pkg]
	// explicit imports in the contract file
	if i := strings.LastIndex(s, "."); i >= 0 {
		alias := strings.TrimLeft(s[:i], "*[]")
		if path, ok := cf.Imports[alias]; ok {
			if p := w.AllTypes[path]; p != nil {
				prefix := s[:len(s[:i])-len(alias)]
				t, so := w.resolveType(p.Path()+"."+s[i+1:], from)
				if t != nil && prefix != "" {
					return w.resolveType(prefix+p.Path()+"."+s[i+1:], from)
				}
				return t, so
			}
			return nil, ""
		}
	}
	return w.resolveType(s, from)
}

// canonName turns a contract function name into the canonical ssa form.
func (w *World) canonName(name string, cf *ContractFile, from *types.Package) string {
	closure := ""
	if i := strings.Index(name, "$"); i >= 0 {
		closure = name[i:]
		name = name[:i]
	}
	qualify := func(tn string) string {
		// tn may be "T", "pkg.T"
		if i := strings.LastIndex(tn, "."); i >= 0 {
			alias := tn[:i]
			if path, ok := cf.Imports[alias]; ok {
				return path + "." + tn[i+1:]
			}
			if p := w.findPkg(alias, from); p != nil {
				return p.Path() + "." + tn[i+1:]
			}
			return ""
		}
		if strings.HasPrefix(cf.Pkg, "prelude:") {
			return ""
		}
		return cf.Pkg + "." + tn
	}
	if strings.HasPrefix(name, "(") {
		j := strings.Index(name, ")")
		recv := name[1:j]
		meth := name[j+1:]
		star := ""
		if strings.HasPrefix(recv, "*") {
			star = "*"
			recv = recv[1:]
		}
		q := qualify(recv)
		if q == "" {
			return ""
		}
		return "(" + star + q + ")" + meth + closure
	}
	q := qualify(name)
	if q == "" {
		return ""
	}
	return q + closure
}

func (w *World) FuncQualName(fn *ssa.Function) string { return fn.String() }

func (w *World) FuncDisplayName(fn *ssa.Function) string {
	s := fn.String()
	s = strings.ReplaceAll(s, w.Module+"/", "")
	// shorten dir path to package name: framework/exterrors.X -> exterrors.X
	if fn.Pkg != nil {
		rel := strings.TrimPrefix(fn.Pkg.Pkg.Path(), w.Module+"/")
		s = strings.ReplaceAll(s, rel+".", fn.Pkg.Pkg.Name()+".")
	} else if fn.Parent() != nil {
		p := fn
		for p.Parent() != nil {
			p = p.Parent()
		}
		if p.Pkg != nil {
			rel := strings.TrimPrefix(p.Pkg.Pkg.Path(), w.Module+"/")
			s = strings.ReplaceAll(s, rel+".", p.Pkg.Pkg.Name()+".")
		}
	}
	return s
}

func (w *World) ContractFor(name string) *FuncContract { return w.Contracts[name] }

func (w *World) SpecFunc(name string, pkg *types.Package) *SpecFunc {
	if i := strings.LastIndex(name, "."); i >= 0 {
		name = name[i+1:]
	}
	return w.specFuncs[name]
}

func (w *World) GhostField(t types.Type, name string) *GhostField {
	if t == nil {
		return nil
	}
	return w.ghosts[typeKey(t)+"."+name]
}

func (w *World) GhostVar(name string) *GhostField { return w.ghostVars[name] }

func (w *World) IsEffectFree(name string) bool {
	short := shortCallee(name)
	for _, p := range w.effFree {
		if strings.HasSuffix(p, "*") {
			pre := strings.TrimSuffix(p, "*")
			if strings.HasPrefix(name, pre) || strings.HasPrefix(short, pre) {
				return true
			}
		} else if p == name || p == short {
			return true
		}
	}
	return false
}

func (w *World) PkgTypes(path string) *types.Package {
	if p, ok := w.AllTypes[path]; ok {
		return p
	}
	return nil
}

// AxiomsFor returns the axioms in scope for functions of a package: its own file and all preludes.
func (w *World) AxiomsFor(pkg *types.Package) []*Axiom {
	var out []*Axiom
	var names []string
	for n := range w.Files {
		names = append(names, n)
	}
	sort.Strings(names)
	for _, n := range names {
		cf := w.Files[n]
		// a file whose imported packages are not part of this run cannot have its axioms evaluated (nor are they needed)
		missing := false
		for _, path := range cf.Imports {
			if w.AllTypes[path] == nil {
				missing = true
			}
		}
		if missing {
			continue
		}
		if !strings.HasPrefix(n, "prelude:") && w.AllTypes[n] == nil {
			continue // axioms of a package that is not part of this run
		}
		out = append(out, cf.Axioms...)
		out = append(out, cf.Lemmas...) // lemmas are proved separately (lemma.go) and then used like axioms
	}
	return out
}

// FindFunc finds the ssa function for a canonical name.
func (w *World) FindFunc(canon string) *ssa.Function {
	for _, sp := range w.SSAPkgs {
		for _, m := range sp.Members {
			if fn, ok := m.(*ssa.Function); ok {
				if f := findIn(fn, canon); f != nil {
					return f
				}
			}
			if tn, ok := m.(*ssa.Type); ok {
				for _, t := range []types.Type{tn.Type(), types.NewPointer(tn.Type())} {
					ms := w.Prog.MethodSets.MethodSet(t)
					for i := 0; i < ms.Len(); i++ {
						fn := w.Prog.MethodValue(ms.At(i))
						if fn == nil {
							continue
						}
						if f := findIn(fn, canon); f != nil {
							return f
						}
					}
				}
			}
		}
	}
	return nil
}

func findIn(fn *ssa.Function, canon string) *ssa.Function {
	if fn.String() == canon {
		return fn
	}
	if !strings.HasPrefix(canon, fn.String()+"$") {
		return nil
	}
	for _, a := range fn.AnonFuncs {
		if f := findIn(a, canon); f != nil {
			return f
		}
	}
	return nil
}
