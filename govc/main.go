package main

import (
	"runtime/debug"
	"encoding/json"
	"flag"
	"fmt"
	"os"
	"path/filepath"
	"sort"
	"strings"
	"sync"
	"time"

	"golang.org/x/tools/go/ssa"
	"golang.org/x/tools/go/ssa/ssautil"
)

func (w *World) hasInvLiteral(fn *ssa.Function, prop string) bool {
	for _, b := range fn.Blocks {
		for _, ins := range b.Instrs {
			if a, ok := ins.(*ssa.Alloc); ok && a.Comment == "complit" {
				for _, ti := range w.typeInvsFor(deref(a.Type())) {
					if hasProp(ti.Props, prop) {
						return true
					}
				}
			}
		}
	}
	return false
}

func (w *World) exemptReason(name string) string {
	for _, cf := range w.Files {
		for _, r := range cf.Exempt {
			if r.Pattern == name {
				return r.Reason
			}
		}
	}
	return ""
}

func (w *World) isRelayed(name string) bool {
	short := shortCallee(name)
	for _, cf := range w.Files {
		for _, r := range cf.Relayed {
			if r == name || r == short || strings.HasSuffix(name, "."+r) || strings.HasSuffix(short, r) {
				return true
			}
		}
	}
	return false
}

type FuncReport struct {
	Name      string
	Canon     string
	Obligs    []*Oblig
	Notes     []string
	Assumed   []string
	Err       string
	Vacuous   bool
	CtxStatus string
	VCBytes   int
	Secs      float64
	File      string
	Scan      bool
}

type RunResult struct {
	Prop     string
	Tier     string
	Funcs    []*FuncReport
	Lemmas   []*Oblig
	Broken   []string
	Wall     float64
	Packages []string
	World    *World `json:"-"`
}

func hasProp(props []string, p string) bool {
	for _, x := range props {
		if x == p || p == "" {
			return true
		}
	}
	return false
}

// selectPackages scans contract files (repo copy preferred, mirror otherwise) for functions tagged with prop.
func selectPackages(repoDir, verifDir, prop string) ([]string, error) {
	rels := map[string]bool{}
	for rel := range mirrorContractFiles(verifDir) {
		rels[rel] = true
	}
	var out []string
	for rel := range rels {
		path, ok := contractPathFor(repoDir, verifDir, rel)
		if !ok {
			continue
		}
		cf, err := ParseContractFile(path, "github.com/foxcpp/maddy/"+rel)
		if err != nil {
			return nil, err
		}
		use := false
		for _, fc := range cf.Funcs {
			if !fc.Extern && hasProp(fc.Props, prop) {
				use = true
			}
		}
		for _, ti := range cf.TypeInvs {
			if hasProp(ti.Props, prop) {
				use = true
			}
		}
		if use {
			out = append(out, rel)
		}
	}
	// packages with composite literals of types that carry an invariant for this property
	for rel := range rels {
		path, ok := contractPathFor(repoDir, verifDir, rel)
		if !ok {
			continue
		}
		cf, _ := ParseContractFile(path, "github.com/foxcpp/maddy/"+rel)
		if cf == nil {
			continue
		}
		for _, ti := range cf.TypeInvs {
			if !hasProp(ti.Props, prop) {
				continue
			}
			base := ti.Type
			if i := strings.LastIndex(base, "."); i >= 0 {
				base = base[i+1:]
			}
			for _, d := range packagesMentioning(repoDir, base+"{") {
				dup := false
				for _, o := range out {
					if o == d {
						dup = true
					}
				}
				if !dup {
					out = append(out, d)
				}
			}
		}
	}
	sort.Strings(out)
	return out, nil
}

// packagesMentioning lists package dirs (relative) under framework/ and internal/ whose non-test sources contain needle.
func packagesMentioning(repoDir, needle string) []string {
	seen := map[string]bool{}
	for _, top := range []string{"framework", "internal"} {
		filepath.Walk(filepath.Join(repoDir, top), func(p string, info os.FileInfo, err error) error {
			if err != nil || info.IsDir() || !strings.HasSuffix(p, ".go") || strings.HasSuffix(p, "_test.go") {
				return nil
			}
			data, err := os.ReadFile(p)
			if err == nil && strings.Contains(string(data), needle) {
				rel, _ := filepath.Rel(repoDir, filepath.Dir(p))
				seen[rel] = true
			}
			return nil
		})
	}
	var out []string
	for d := range seen {
		out = append(out, d)
	}
	sort.Strings(out)
	return out
}

// currentProp: the property whose check is running (property-scoped clauses).
var currentProp string

func verify(repoDir, verifDir, prop, tier, fnFilter, dump string, overlay map[string][]byte) (*RunResult, error) {
	currentProp = prop
	t0 := time.Now()
	rels, err := selectPackages(repoDir, verifDir, prop)
	if err != nil {
		return nil, err
	}
	if len(rels) == 0 {
		return nil, fmt.Errorf("no contracts tagged with property %s", prop)
	}
	w, err := LoadWorld(repoDir, verifDir, rels, overlay)
	if err != nil {
		return nil, err
	}
	exemptCheck = w.exemptReason
	res := &RunResult{Prop: prop, Tier: tier, Packages: rels, World: w}
	timeout := 10000
	if tier == "thorough" {
		timeout = 60000
	}
	var names []string
	for n, c := range w.Contracts {
		if c.Extern || !hasProp(c.Props, prop) {
			continue
		}
		if fnFilter != "" && !strings.Contains(n, fnFilter) {
			continue
		}
		names = append(names, n)
	}
	sort.Strings(names)
	// literal scan: every function containing a composite literal of a type with an invariant for this property
	scanProp := ""
	for _, tis := range w.typeInvs {
		for _, ti := range tis {
			if hasProp(ti.Props, prop) && prop != "" {
				scanProp = prop
			}
		}
	}
	synthetic := map[string]*FuncContract{}
	if scanProp != "" && fnFilter == "" {
		have := map[string]bool{}
		for _, n := range names {
			have[n] = true
		}
		for fn := range ssautil.AllFunctions(w.Prog) {
			if fn.Synthetic != "" || fn.Syntax() == nil || len(fn.Blocks) == 0 {
				continue
			}
			root := fn
			for root.Parent() != nil {
				root = root.Parent()
			}
			if root.Pkg == nil || w.SSAPkgs[root.Pkg.Pkg.Path()] == nil {
				continue
			}
			if have[fn.String()] || !w.hasInvLiteral(fn, scanProp) || w.isRelayed(fn.String()) {
				continue
			}
			synthetic[fn.String()] = &FuncContract{Name: fn.String(), Props: []string{prop}, ModifiesAll: true, Loops: map[int][]*Clause{}, Pkg: root.Pkg.Pkg.Path(), File: "(literal scan)"}
			names = append(names, fn.String())
		}
		sort.Strings(names)
	}
	sem := make(chan struct{}, 16)
	var wg sync.WaitGroup
	var mu sync.Mutex
	for _, n := range names {
		c := w.Contracts[n]
		isScan := false
		if c == nil {
			c = synthetic[n]
			isScan = true
		} else if synthetic[n] != nil && !hasProp(c.Props, prop) {
			// literal scan of a function whose contract belongs to another property: keep what the body needs to be
			// translated (preconditions, loop invariants), drop that property's postconditions and call assertions
			// (they are obligations of its own check, not of this one)
			sc := *synthetic[n]
			sc.Requires, sc.Loops, sc.Params, sc.Results, sc.Labels = c.Requires, c.Loops, c.Params, c.Results, c.Labels
			c = &sc
			isScan = true
		}
		fn := w.FindFunc(n)
		fr := &FuncReport{Canon: n, Name: shortCallee(n), File: c.File}
		res.Funcs = append(res.Funcs, fr)
		if fn == nil {
			fr.Err = "function under contract not found in the source tree: " + n
			continue
		}
		fr.Name = w.FuncDisplayName(fn)
		if c.Trusted {
			fr.Notes = append(fr.Notes, "trusted: contract assumed, body not checked")
			continue
		}
		v := NewFnVC(w, fn, c)
		v.LitProp = scanProp
		fr.Scan = isScan
		wg.Add(1)
		go func() {
			defer wg.Done()
			t1 := time.Now()
			func() {
				defer func() {
					if r := recover(); r != nil {
						fr.Err = fmt.Sprintf("generator panic: %v", r)
						if os.Getenv("GOVC_TRACE") != "" {
							fmt.Fprintf(os.Stderr, "%s\n", debug.Stack())
						}
					}
				}()
				if err := v.Generate(); err != nil {
					fr.Err = err.Error()
					return
				}
				fr.VCBytes = len(v.Context())
				vac, cs := SolveAll(v, timeout, dump, sem)
				fr.Vacuous, fr.CtxStatus = vac, cs
			}()
			mu.Lock()
			for _, o := range v.obligs {
				o.Exempt = w.exemptReason(o.Name)
			}
			fr.Obligs = v.obligs
			fr.Notes = v.notes
			for a := range v.assumedCallees {
				fr.Assumed = append(fr.Assumed, a)
			}
			sort.Strings(fr.Assumed)
			if len(v.errs) > 0 && fr.Err == "" {
				fr.Err = strings.Join(v.errs, "; ")
			}
			fr.Secs = time.Since(t1).Seconds()
			mu.Unlock()
		}()
	}
	// lemmas of this property
	for _, l := range w.LemmasFor(prop) {
		if fnFilter != "" && !strings.Contains(l.Name, fnFilter) {
			continue
		}
		fr := &FuncReport{Canon: "lemma " + l.Name, Name: "lemma " + l.Name, File: l.Pkg}
		res.Funcs = append(res.Funcs, fr)
		l := l
		wg.Add(1)
		go func() {
			defer wg.Done()
			obs, err := proveLemma(w, l, timeout, sem)
			mu.Lock()
			fr.Obligs = obs
			if err != nil {
				fr.Err = err.Error()
			}
			fr.CtxStatus = "lemma"
			mu.Unlock()
		}()
	}
	wg.Wait()
	res.Wall = time.Since(t0).Seconds()
	return res, nil
}

func main() {
	if len(os.Args) < 2 {
		fmt.Fprintln(os.Stderr, "usage: govc verify|check|selftest ...")
		os.Exit(2)
	}
	switch os.Args[1] {
	case "verify":
		fs := flag.NewFlagSet("verify", flag.ExitOnError)
		repo := fs.String("repo", "/repo", "repository")
		verif := fs.String("verif", "/verif", "verif dir")
		prop := fs.String("prop", "", "property id")
		tier := fs.String("tier", "quick", "quick|thorough")
		fn := fs.String("fn", "", "function filter")
		dump := fs.String("dump", "", "directory for SMT scripts")
		verbose := fs.Bool("v", false, "verbose")
		fs.Parse(os.Args[2:])
		if os.Getenv("GOVC_SINGLE") != "" {
			crossCheck = true // diagnostic: wait for every back end and report obligations only one of them decides
		}
		if *dump != "" {
			os.MkdirAll(*dump, 0o755)
		}
		res, err := verify(*repo, *verif, *prop, *tier, *fn, *dump, nil)
		if err != nil {
			fmt.Fprintln(os.Stderr, "error:", err)
			os.Exit(2)
		}
		printHuman(res, *verbose)
	case "check":
		os.Exit(cmdCheck(os.Args[2:]))
	case "selftest":
		os.Exit(cmdSelftest(os.Args[2:]))
	case "replay":
		os.Exit(cmdReplay(os.Args[2:]))
	default:
		fmt.Fprintln(os.Stderr, "unknown command", os.Args[1])
		os.Exit(2)
	}
}

func printHuman(res *RunResult, verbose bool) {
	total, ok := 0, 0
	for _, f := range res.Funcs {
		fmt.Printf("== %s  (%d obligations, %d bytes, %.1fs) ctx=%s\n", f.Name, len(f.Obligs), f.VCBytes, f.Secs, f.CtxStatus)
		if f.Err != "" {
			fmt.Printf("   ERROR: %s\n", f.Err)
		}
		if f.Vacuous {
			fmt.Printf("   VACUOUS: assumptions are contradictory\n")
		}
		for _, o := range f.Obligs {
			total++
			good := o.Result == "unsat"
			if o.IsCover {
				good = o.Result != "unsat" && !strings.HasPrefix(o.Result, "error")
			}
			if o.Exempt != "" {
				total--
				if verbose {
					fmt.Printf("   exempt   %-60s %s (%s)\n", o.Name, o.Result, o.Exempt)
				}
				continue
			}
			if good {
				ok++
			}
			if verbose || !good {
				fmt.Printf("   %-8s %-60s %s [%s %.2fs] %s\n", map[bool]string{true: "ok", false: "FAIL"}[good], o.Name, o.Result, o.Solver, o.Secs, o.Text)
				if !good && o.Pos != "" {
					fmt.Printf("            at %s\n", o.Pos)
				}
			}
		}
		if verbose {
			for _, n := range f.Notes {
				fmt.Printf("   note: %s\n", n)
			}
			for _, n := range f.Assumed {
				fmt.Printf("   assumed: %s\n", n)
			}
		}
	}
	fmt.Printf("%d/%d obligations discharged in %.1fs\n", ok, total, res.Wall)
}

func writeJSON(path string, v interface{}) error {
	data, err := json.MarshalIndent(v, "", " ")
	if err != nil {
		return err
	}
	os.MkdirAll(filepath.Dir(path), 0o755)
	return os.WriteFile(path, append(data, '\n'), 0o644)
}
