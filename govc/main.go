package main

import (
	"encoding/json"
	"flag"
	"fmt"
	"os"
	"path/filepath"
	"sort"
	"strings"
	"sync"
	"time"
)

type FuncReport struct {
	Name      string
	Canon     string
	Obligs    []*Oblig
	Notes     []string
	Assumed   []string
	Err       string
	Vacuous   bool
	CtxStatus string
	VCBytes   int
	Secs      float64
	File      string
}

type RunResult struct {
	Prop     string
	Tier     string
	Funcs    []*FuncReport
	Lemmas   []*Oblig
	Broken   []string
	Wall     float64
	Packages []string
	World    *World `json:"-"`
}

func hasProp(props []string, p string) bool {
	for _, x := range props {
		if x == p || p == "" {
			return true
		}
	}
	return false
}

// selectPackages scans contract files (repo copy preferred, mirror otherwise) for functions tagged with prop.
func selectPackages(repoDir, verifDir, prop string) ([]string, error) {
	rels := map[string]bool{}
	for rel := range mirrorContractFiles(verifDir) {
		rels[rel] = true
	}
	var out []string
	for rel := range rels {
		path, ok := contractPathFor(repoDir, verifDir, rel)
		if !ok {
			continue
		}
		cf, err := ParseContractFile(path, "github.com/foxcpp/maddy/"+rel)
		if err != nil {
			return nil, err
		}
		use := false
		for _, fc := range cf.Funcs {
			if !fc.Extern && hasProp(fc.Props, prop) {
				use = true
			}
		}
		for _, ti := range cf.TypeInvs {
			if hasProp(ti.Props, prop) {
				use = true
			}
		}
		if use {
			out = append(out, rel)
		}
	}
	sort.Strings(out)
	return out, nil
}

func verify(repoDir, verifDir, prop, tier, fnFilter, dump string, overlay map[string][]byte) (*RunResult, error) {
	t0 := time.Now()
	rels, err := selectPackages(repoDir, verifDir, prop)
	if err != nil {
		return nil, err
	}
	if len(rels) == 0 {
		return nil, fmt.Errorf("no contracts tagged with property %s", prop)
	}
	w, err := LoadWorld(repoDir, verifDir, rels, overlay)
	if err != nil {
		return nil, err
	}
	res := &RunResult{Prop: prop, Tier: tier, Packages: rels, World: w}
	timeout := 10000
	if tier == "thorough" {
		timeout = 60000
	}
	var names []string
	for n, c := range w.Contracts {
		if c.Extern || !hasProp(c.Props, prop) {
			continue
		}
		if fnFilter != "" && !strings.Contains(n, fnFilter) {
			continue
		}
		names = append(names, n)
	}
	sort.Strings(names)
	sem := make(chan struct{}, 16)
	var wg sync.WaitGroup
	var mu sync.Mutex
	for _, n := range names {
		c := w.Contracts[n]
		fn := w.FindFunc(n)
		fr := &FuncReport{Canon: n, Name: shortCallee(n), File: c.File}
		res.Funcs = append(res.Funcs, fr)
		if fn == nil {
			fr.Err = "function under contract not found in the source tree: " + n
			continue
		}
		fr.Name = w.FuncDisplayName(fn)
		if c.Trusted {
			fr.Notes = append(fr.Notes, "trusted: contract assumed, body not checked")
			continue
		}
		v := NewFnVC(w, fn, c)
		wg.Add(1)
		go func() {
			defer wg.Done()
			t1 := time.Now()
			func() {
				defer func() {
					if r := recover(); r != nil {
						fr.Err = fmt.Sprintf("generator panic: %v", r)
					}
				}()
				if err := v.Generate(); err != nil {
					fr.Err = err.Error()
					return
				}
				fr.VCBytes = len(v.Context())
				vac, cs := SolveAll(v, timeout, dump, sem)
				fr.Vacuous, fr.CtxStatus = vac, cs
			}()
			mu.Lock()
			fr.Obligs = v.obligs
			fr.Notes = v.notes
			for a := range v.assumedCallees {
				fr.Assumed = append(fr.Assumed, a)
			}
			sort.Strings(fr.Assumed)
			if len(v.errs) > 0 && fr.Err == "" {
				fr.Err = strings.Join(v.errs, "; ")
			}
			fr.Secs = time.Since(t1).Seconds()
			mu.Unlock()
		}()
	}
	wg.Wait()
	res.Wall = time.Since(t0).Seconds()
	return res, nil
}

func main() {
	if len(os.Args) < 2 {
		fmt.Fprintln(os.Stderr, "usage: govc verify|check|selftest ...")
		os.Exit(2)
	}
	switch os.Args[1] {
	case "verify":
		fs := flag.NewFlagSet("verify", flag.ExitOnError)
		repo := fs.String("repo", "/repo", "repository")
		verif := fs.String("verif", "/verif", "verif dir")
		prop := fs.String("prop", "", "property id")
		tier := fs.String("tier", "quick", "quick|thorough")
		fn := fs.String("fn", "", "function filter")
		dump := fs.String("dump", "", "directory for SMT scripts")
		verbose := fs.Bool("v", false, "verbose")
		fs.Parse(os.Args[2:])
		if *dump != "" {
			os.MkdirAll(*dump, 0o755)
		}
		res, err := verify(*repo, *verif, *prop, *tier, *fn, *dump, nil)
		if err != nil {
			fmt.Fprintln(os.Stderr, "error:", err)
			os.Exit(2)
		}
		printHuman(res, *verbose)
	case "check":
		os.Exit(cmdCheck(os.Args[2:]))
	case "selftest":
		os.Exit(cmdSelftest(os.Args[2:]))
	case "replay":
		os.Exit(cmdReplay(os.Args[2:]))
	default:
		fmt.Fprintln(os.Stderr, "unknown command", os.Args[1])
		os.Exit(2)
	}
}

func printHuman(res *RunResult, verbose bool) {
	total, ok := 0, 0
	for _, f := range res.Funcs {
		fmt.Printf("== %s  (%d obligations, %d bytes, %.1fs) ctx=%s\n", f.Name, len(f.Obligs), f.VCBytes, f.Secs, f.CtxStatus)
		if f.Err != "" {
			fmt.Printf("   ERROR: %s\n", f.Err)
		}
		if f.Vacuous {
			fmt.Printf("   VACUOUS: assumptions are contradictory\n")
		}
		for _, o := range f.Obligs {
			total++
			good := o.Result == "unsat"
			if o.IsCover {
				good = o.Result == "sat"
			}
			if good {
				ok++
			}
			if verbose || !good {
				fmt.Printf("   %-8s %-60s %s [%s %.2fs] %s\n", map[bool]string{true: "ok", false: "FAIL"}[good], o.Name, o.Result, o.Solver, o.Secs, o.Text)
				if !good && o.Pos != "" {
					fmt.Printf("            at %s\n", o.Pos)
				}
			}
		}
		if verbose {
			for _, n := range f.Notes {
				fmt.Printf("   note: %s\n", n)
			}
			for _, n := range f.Assumed {
				fmt.Printf("   assumed: %s\n", n)
			}
		}
	}
	fmt.Printf("%d/%d obligations discharged in %.1fs\n", ok, total, res.Wall)
}

func writeJSON(path string, v interface{}) error {
	data, err := json.MarshalIndent(v, "", " ")
	if err != nil {
		return err
	}
	os.MkdirAll(filepath.Dir(path), 0o755)
	return os.WriteFile(path, append(data, '\n'), 0o644)
}
