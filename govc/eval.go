package main

// Evaluation of contract expressions to SMT terms.

import (
	"sort"
	"fmt"
	"go/constant"
	"go/types"
	"strings"

	"golang.org/x/tools/go/ssa"
)

type Env struct {
	v      *FnVC
	vars   map[string]Term
	lookup func(name string) (Term, bool)
	lookupAt func(name string, st *State) (Term, bool) // like lookup, for the state the expression is evaluated in (old() aware)
	st     *State
	old    *State
	pkg    *types.Package
	depth  int
	cur    bool // mid-function clause (loop invariant, assert-call, assert-update): a reassigned parameter that lives in a cell denotes its current value
}

func (e *Env) with(name string, t Term) *Env {
	n := *e
	n.vars = map[string]Term{}
	for k, x := range e.vars {
		n.vars[k] = x
	}
	n.vars[name] = t
	return &n
}

func (e *Env) atOld() *Env {
	n := *e
	if e.old != nil {
		n.st = e.old
	}
	return &n
}

func (v *FnVC) evalBool(x Expr, env *Env) string {
	t := v.evalTerm(x, env)
	if t.Sort != "Bool" {
		v.fail("contract expression %s is not boolean (sort %s)", x.String(), t.Sort)
	}
	return t.S
}

func boolT(s string) Term { return Term{S: s, Sort: "Bool", T: types.Typ[types.Bool]} }
func intT(s string) Term  { return Term{S: s, Sort: "Int", T: types.Typ[types.Int]} }

// resolveType resolves a type expression string in the context of a package.
func (w *World) resolveType(s string, pkg *types.Package) (types.Type, string) {
	s = strings.TrimSpace(s)
	switch s {
	case "int":
		return types.Typ[types.Int], "Int"
	case "bool":
		return types.Typ[types.Bool], "Bool"
	case "string":
		return types.Typ[types.String], "Str"
	case "error":
		return types.Universe.Lookup("error").Type(), "Iface"
	case "any":
		return types.Universe.Lookup("any").Type(), "Iface"
	case "byte", "uint8":
		return types.Typ[types.Uint8], "Int"
	case "rune", "int32":
		return types.Typ[types.Int32], "Int"
	case "int64":
		return types.Typ[types.Int64], "Int"
	case "uint":
		return types.Typ[types.Uint], "Int"
	case "ref":
		return nil, "Int"
	case "struct{}":
		return types.NewStruct(nil, nil), ""
	}
	if strings.HasPrefix(s, "*") {
		t, _ := w.resolveType(s[1:], pkg)
		if t == nil {
			return nil, "Int"
		}
		return types.NewPointer(t), "Int"
	}
	if strings.HasPrefix(s, "[]") {
		t, _ := w.resolveType(s[2:], pkg)
		if t == nil {
			return nil, "Slice"
		}
		return types.NewSlice(t), "Slice"
	}
	if strings.HasPrefix(s, "Set[") && strings.HasSuffix(s, "]") {
		_, so := w.resolveType(s[4:len(s)-1], pkg)
		return nil, fmt.Sprintf("(Array %s Bool)", so)
	}
	if strings.HasPrefix(s, "Map[") && strings.HasSuffix(s, "]") {
		parts := splitTop(s[4:len(s)-1], ',')
		if len(parts) == 2 {
			kt, k := w.resolveType(parts[0], pkg)
			vt, vv := w.resolveType(parts[1], pkg)
			if kt != nil && vt != nil {
				// spec map: a Go map type is used only to carry the element type; the sort is an SMT array
				return types.NewMap(kt, vt), "SPECMAP"
			}
			return nil, fmt.Sprintf("(Array %s %s)", k, vv)
		}
	}
	if strings.HasPrefix(s, "map[") {
		j := strings.Index(s, "]")
		k, _ := w.resolveType(s[4:j], pkg)
		e, _ := w.resolveType(s[j+1:], pkg)
		if k != nil && e != nil {
			return types.NewMap(k, e), "Int"
		}
		return nil, "Int"
	}
	if i := strings.LastIndex(s, "."); i >= 0 {
		pn, tn := s[:i], s[i+1:]
		for _, p := range w.findPkgs(pn, pkg) {
			if o := p.Scope().Lookup(tn); o != nil {
				if tnm, ok := o.(*types.TypeName); ok {
					return tnm.Type(), ""
				}
			}
		}
		return nil, ""
	}
	if pkg != nil {
		if o := pkg.Scope().Lookup(s); o != nil {
			if tn, ok := o.(*types.TypeName); ok {
				return tn.Type(), ""
			}
		}
	}
	return nil, ""
}

func (v *FnVC) sortOfSpecType(s string, pkg *types.Package) (types.Type, string) {
	t, so := v.W.resolveType(s, pkg)
	if so == "SPECMAP" {
		m := t.(*types.Map)
		return t, fmt.Sprintf("(Array %s %s)", v.S.SortOf(m.Key()), v.S.SortOf(m.Elem()))
	}
	if t != nil {
		return t, v.S.SortOf(t)
	}
	if so == "" {
		v.fail("cannot resolve type %q in contract", s)
	}
	return nil, so
}

// findPkg resolves a package name or path as seen from pkg.
// findPkgs lists all packages a qualifier may denote (imports first, then the package itself, then any loaded).
func (w *World) findPkgs(name string, from *types.Package) []*types.Package {
	var out []*types.Package
	if path, ok := w.Aliases[name]; ok {
		if p := w.AllTypes[path]; p != nil {
			return []*types.Package{p}
		}
	}
	if from != nil {
		for _, imp := range from.Imports() {
			if imp.Name() == name || imp.Path() == name {
				out = append(out, imp)
			}
		}
		if from.Name() == name || from.Path() == name {
			out = append(out, from)
		}
	}
	if len(out) == 0 {
		if p := w.findPkg(name, nil); p != nil {
			out = append(out, p)
		}
	}
	return out
}

func (w *World) findPkg(name string, from *types.Package) *types.Package {
	if path, ok := w.Aliases[name]; ok {
		return w.AllTypes[path]
	}
	if from != nil {
		if from.Name() == name || from.Path() == name {
			return from
		}
		for _, imp := range from.Imports() {
			if imp.Name() == name || imp.Path() == name {
				return imp
			}
		}
	}
	for _, p := range w.AllTypes {
		if p.Path() == name {
			return p
		}
	}
	for _, p := range w.AllTypes {
		if p.Name() == name {
			return p
		}
	}
	return nil
}

func (v *FnVC) evalTerm(x Expr, env *Env) Term {
	switch e := x.(type) {
	case *EInt:
		s := e.V
		if strings.HasPrefix(s, "-") {
			s = "(- " + s[1:] + ")"
		}
		return intT(s)
	case *EStr:
		return Term{S: v.S.StrLit(e.V), Sort: "Str", T: types.Typ[types.String]}
	case *EBool:
		return boolT(fmt.Sprint(e.V))
	case *EIdent:
		return v.evalIdent(e.Name, env)
	case *EUnary:
		if e.Op == "&" {
			id, ok := e.X.(*EIdent)
			if !ok {
				v.fail("& is only supported on local variable names")
			}
			return v.evalIdent("&"+id.Name, env)
		}
		a := v.evalTerm(e.X, env)
		switch e.Op {
		case "!":
			return boolT("(not " + a.S + ")")
		case "-":
			return intT("(- " + a.S + ")")
		case "*":
			if a.T == nil {
				v.fail("cannot dereference untyped %s", e.X)
			}
			l := v.locFromPtr(a.S, deref(a.T))
			return v.load(env.st, l)
		}
	case *EBinary:
		return v.evalBinary(e, env)
	case *ECond:
		c := v.evalBool(e.C, env)
		a := v.evalTerm(e.A, env)
		b := v.evalTerm(e.B, env)
		a, b = v.unifyNil(a, b)
		return Term{S: fmt.Sprintf("(ite %s %s %s)", c, a.S, b.S), Sort: a.Sort, T: a.T}
	case *EQuant:
		ne := env
		var binds []string
		var ranges []string
		for _, q := range e.Vars {
			t, so := v.sortOfSpecType(q.Type, env.pkg)
			name := fmt.Sprintf("q_%s_%d", q.Name, v.fresh)
			v.fresh++
			binds = append(binds, fmt.Sprintf("(%s %s)", name, so))
			tm := Term{S: name, Sort: so, T: t}
			ne = ne.with(q.Name, tm)
			_ = ranges
		}
		body := v.evalBool(e.Body, ne)
		q := "exists"
		if e.Forall {
			q = "forall"
		}
		return boolT(fmt.Sprintf("(%s (%s) %s)", q, strings.Join(binds, " "), body))
	case *ESel:
		return v.evalSel(e, env)
	case *EIndex:
		a := v.evalTerm(e.X, env)
		i := v.evalTerm(e.I, env)
		return v.indexTerm(a, i, env)
	case *ECall:
		return v.evalCall(e, env)
	case *ESlice:
		a := v.evalTerm(e.X, env)
		lo := intT("0")
		if e.Lo != nil {
			lo = v.evalTerm(e.Lo, env)
		}
		if a.Sort == "Str" {
			hi := intT(fmt.Sprintf("(len_s %s)", a.S))
			if e.Hi != nil {
				hi = v.evalTerm(e.Hi, env)
			}
			return Term{S: v.substr(a.S, lo.S, hi.S), Sort: "Str", T: a.T}
		}
		if a.Sort == "Slice" {
			hi := intT(fmt.Sprintf("(slen %s)", a.S))
			if e.Hi != nil {
				hi = v.evalTerm(e.Hi, env)
			}
			return Term{S: fmt.Sprintf("(mkSlice (sarr %s) (+ (soff %s) %s) (- %s %s) (- (scap %s) %s))", a.S, a.S, lo.S, hi.S, lo.S, a.S, lo.S), Sort: "Slice", T: a.T}
		}
	}
	v.fail("unsupported contract expression %s", x.String())
	return Term{}
}

func (v *FnVC) substr(s, lo, hi string) string {
	t := fmt.Sprintf("(substr_s %s %s %s)", s, lo, hi)
	key := "substr:" + t
	if strings.Contains(t, "q_") {
		return t
	}
	if !v.implFacts[key] {
		v.implFacts[key] = true
		// length and bytes of a substring (valid range only)
		v.asserts = append(v.asserts, fmt.Sprintf("(=> (and (<= 0 %s) (<= %s %s) (<= %s (len_s %s))) (= (len_s %s) (- %s %s)))", lo, lo, hi, hi, s, t, hi, lo))
		v.asserts = append(v.asserts, v.strWF(t))
		v.asserts = append(v.asserts, quantPat(fmt.Sprintf("(=> (and (<= 0 k) (< k (- %s %s))) (= (at_s %s k) (at_s %s (+ %s k))))", hi, lo, t, s, lo), fmt.Sprintf("(at_s %s k)", t)))
		v.asserts = append(v.asserts, fmt.Sprintf("(=> (and (= %s 0) (= %s (len_s %s))) (= %s %s))", lo, hi, s, t, s))
	}
	return t
}

func (v *FnVC) evalIdent(name string, env *Env) Term {
	if env.cur && v.Fn != nil && env.st != v.entry { // inside old(): the entry value of the parameter
		for _, p := range v.Fn.Params {
			if p.Name() == name {
				if t, ok := v.cellVar(name, env.st); ok {
					return t
				}
			}
		}
	}
	if t, ok := env.vars[name]; ok {
		return t
	}
	if strings.HasPrefix(name, "&") {
		if t, ok := v.addrOfLocal(name[1:]); ok {
			return t
		}
	}
	if v.Fn != nil {
		// a captured variable of a closure lives in its cell: read it in the state the expression is evaluated in
		// (so that old(x) is the entry value, not the last value loaded)
		for _, fv := range v.Fn.FreeVars {
			if fv.Name() == name {
				if p, ok := env.vars["&"+name]; ok && p.T != nil {
					return v.load(env.st, v.locFromPtr(p.S, deref(p.T)))
				}
			}
		}
	}
	if env.lookupAt != nil {
		if t, ok := env.lookupAt(name, env.st); ok {
			return t
		}
	}
	if env.lookup != nil {
		if t, ok := env.lookup(name); ok {
			return t
		}
	}
	if name == "nil" {
		return Term{S: "nil", Sort: "Nil"}
	}
	if p, ok := env.vars["&"+name]; ok && p.T != nil {
		return v.load(env.st, v.locFromPtr(p.S, deref(p.T)))
	}
	// ghost var
	if g := v.W.GhostVar(name); g != nil {
		gt, so := v.sortOfSpecType(g.Sort, env.pkg)
		key := v.regKey("GV:"+name, so)
		return Term{S: v.heapGet(env.st, key), Sort: so, T: gt}
	}
	// package-level constant
	if env.pkg != nil {
		if o := env.pkg.Scope().Lookup(name); o != nil {
			if t, ok := v.objTerm(o, env); ok {
				return t
			}
		}
	}
	v.fail("unknown identifier %q in contract of %s", name, v.fnName())
	return Term{}
}

func (v *FnVC) objTerm(o types.Object, env *Env) (Term, bool) {
	switch c := o.(type) {
	case *types.Const:
		return v.constValTerm(c.Val(), c.Type()), true
	case *types.Var:
		if c.Pkg() != nil && !strings.HasPrefix(c.Pkg().Path(), v.W.Module) {
			return v.extGlobal(c.Pkg().Path(), c.Name(), c.Type()), true
		}
		// package-level variable: read from its cell
		name := "glob_" + sanitize(c.Pkg().Path()+"."+c.Name())
		v.S.declFun(name, "() Int")
		l := v.locFromPtr(name, c.Type())
		return v.load(env.st, l), true
	}
	return Term{}, false
}

func (v *FnVC) constValTerm(val constant.Value, t types.Type) Term {
	switch val.Kind() {
	case constant.Bool:
		return Term{S: fmt.Sprint(constant.BoolVal(val)), Sort: "Bool", T: t}
	case constant.Int:
		s := val.ExactString()
		if strings.HasPrefix(s, "-") {
			s = "(- " + s[1:] + ")"
		}
		return Term{S: s, Sort: "Int", T: t}
	case constant.String:
		return Term{S: v.S.StrLit(constant.StringVal(val)), Sort: "Str", T: t}
	}
	v.fail("unsupported constant kind")
	return Term{}
}

// unifyNil turns an untyped nil into the nil of the other operand's sort.
func (v *FnVC) unifyNil(a, b Term) (Term, Term) {
	if a.Sort == "Nil" && b.Sort != "Nil" {
		a = v.nilOf(b)
	}
	if b.Sort == "Nil" && a.Sort != "Nil" {
		b = v.nilOf(a)
	}
	return a, b
}

func (v *FnVC) nilOf(like Term) Term {
	switch like.Sort {
	case "Iface":
		return Term{S: "(mkIface 0 0)", Sort: "Iface", T: like.T}
	case "Slice":
		return Term{S: "(mkSlice 0 0 0 0)", Sort: "Slice", T: like.T}
	case "Int":
		return Term{S: "0", Sort: "Int", T: like.T}
	}
	v.fail("nil compared with sort %s", like.Sort)
	return Term{}
}

func (v *FnVC) evalBinary(e *EBinary, env *Env) Term {
	switch e.Op {
	case "==>":
		return boolT(fmt.Sprintf("(=> %s %s)", v.evalBool(e.X, env), v.evalBool(e.Y, env)))
	case "<==>":
		return boolT(fmt.Sprintf("(= %s %s)", v.evalBool(e.X, env), v.evalBool(e.Y, env)))
	case "&&":
		return boolT(fmt.Sprintf("(and %s %s)", v.evalBool(e.X, env), v.evalBool(e.Y, env)))
	case "||":
		return boolT(fmt.Sprintf("(or %s %s)", v.evalBool(e.X, env), v.evalBool(e.Y, env)))
	}
	a := v.evalTerm(e.X, env)
	b := v.evalTerm(e.Y, env)
	a, b = v.unifyNil(a, b)
	switch e.Op {
	case "==", "!=":
		var s string
		if a.Sort != b.Sort {
			v.fail("sort mismatch in %s: %s vs %s", e.String(), a.Sort, b.Sort)
		}
		switch {
		case a.Sort == "Iface" && (b.S == "(mkIface 0 0)"):
			s = fmt.Sprintf("(= (itag %s) 0)", a.S)
		case a.Sort == "Iface" && (a.S == "(mkIface 0 0)"):
			s = fmt.Sprintf("(= (itag %s) 0)", b.S)
		case a.Sort == "Slice" && b.S == "(mkSlice 0 0 0 0)":
			s = fmt.Sprintf("(= (sarr %s) 0)", a.S)
		default:
			s = fmt.Sprintf("(= %s %s)", a.S, b.S)
		}
		if e.Op == "!=" {
			s = "(not " + s + ")"
		}
		return boolT(s)
	case "<", "<=", ">", ">=":
		return boolT(fmt.Sprintf("(%s %s %s)", e.Op, a.S, b.S))
	case "+":
		if a.Sort == "Str" {
			return Term{S: v.concat(a.S, b.S), Sort: "Str", T: a.T}
		}
		return Term{S: fmt.Sprintf("(+ %s %s)", a.S, b.S), Sort: "Int", T: a.T}
	case "-":
		return Term{S: fmt.Sprintf("(- %s %s)", a.S, b.S), Sort: "Int", T: a.T}
	case "*":
		return Term{S: fmt.Sprintf("(* %s %s)", a.S, b.S), Sort: "Int", T: a.T}
	case "/":
		return Term{S: v.goDiv(a.S, b.S), Sort: "Int", T: a.T}
	case "%":
		return Term{S: v.goMod(a.S, b.S), Sort: "Int", T: a.T}
	}
	v.fail("unsupported operator %s", e.Op)
	return Term{}
}

func (v *FnVC) goDiv(a, b string) string {
	return fmt.Sprintf("(ite (>= %s 0) (div %s %s) (- (div (- %s) %s)))", a, a, b, a, b)
}
func (v *FnVC) goMod(a, b string) string {
	return fmt.Sprintf("(- %s (* %s %s))", a, b, v.goDiv(a, b))
}

func (v *FnVC) concat(a, b string) string {
	t := fmt.Sprintf("(concat_s %s %s)", a, b)
	key := "concat:" + t
	if strings.Contains(t, "q_") {
		return t // under a quantifier: no ground instance axioms
	}
	if !v.implFacts[key] {
		v.implFacts[key] = true
		v.asserts = append(v.asserts, fmt.Sprintf("(= (len_s %s) (+ (len_s %s) (len_s %s)))", t, a, b))
		v.asserts = append(v.asserts, v.strWF(t))
		v.asserts = append(v.asserts, quantPat(fmt.Sprintf("(=> (and (<= 0 k) (< k (len_s %s))) (= (at_s %s k) (ite (< k (len_s %s)) (at_s %s k) (at_s %s (- k (len_s %s))))))", t, t, a, a, b, a), fmt.Sprintf("(at_s %s k)", t)))
	}
	return t
}

func (v *FnVC) evalSel(e *ESel, env *Env) Term {
	// package-qualified constant?
	if id, ok := e.X.(*EIdent); ok {
		if _, bound := env.vars[id.Name]; !bound {
			isLocal := false
			if env.lookup != nil {
				_, isLocal = env.lookup(id.Name)
			}
			if !isLocal {
				for _, p := range v.W.findPkgs(id.Name, env.pkg) {
					if o := p.Scope().Lookup(e.Sel); o != nil {
						if t, ok := v.objTerm(o, env); ok {
							return t
						}
					}
				}
			}
		}
	}
	x := v.evalTerm(e.X, env)
	return v.fieldOf(x, e.Sel, env)
}

func (v *FnVC) fieldOf(x Term, name string, env *Env) Term {
	if x.T == nil {
		v.fail("selector .%s on untyped term %s", name, x.S)
	}
	// ghost field?
	base := deref(x.T)
	if g := v.W.GhostField(base, name); g != nil {
		_, so := v.sortOfSpecType(g.Sort, env.pkg)
		key := v.regKey("G:"+typeKey(base)+"."+name, fmt.Sprintf("(Array Int %s)", so))
		ref := x.S
		if x.Sort == "Iface" {
			ref = fmt.Sprintf("(ival %s)", x.S)
		}
		gt, _ := v.W.resolveType(g.Sort, env.pkg)
		return Term{S: fmt.Sprintf("(select %s %s)", v.heapGet(env.st, key), ref), Sort: so, T: gt}
	}
	obj, index, _ := types.LookupFieldOrMethod(x.T, true, nil, name)
	if obj == nil && env.pkg != nil {
		obj, index, _ = types.LookupFieldOrMethod(x.T, true, env.pkg, name)
	}
	if obj == nil {
		// try all known packages for unexported fields
		if n, ok := deref(x.T).(*types.Named); ok && n.Obj().Pkg() != nil {
			obj, index, _ = types.LookupFieldOrMethod(x.T, true, n.Obj().Pkg(), name)
		}
	}
	fld, ok := obj.(*types.Var)
	if !ok || fld == nil {
		v.fail("no field %s in %s", name, x.T)
	}
	cur := x
	for _, i := range index {
		if p, ok := cur.T.Underlying().(*types.Pointer); ok {
			st, ok := structOf(p.Elem())
			if !ok {
				v.fail("field of non-struct pointer")
			}
			f := st.Field(i)
			key := v.fieldKey(p.Elem(), f)
			cur = Term{S: fmt.Sprintf("(select %s %s)", v.heapGet(env.st, key), cur.S), Sort: v.S.SortOf(f.Type()), T: f.Type()}
			continue
		}
		st, ok := structOf(cur.T)
		if !ok {
			v.fail("field %s of non-struct %s", name, cur.T)
		}
		f := st.Field(i)
		cur = Term{S: fmt.Sprintf("(%s__%s %s)", v.S.SortOf(cur.T), fieldAcc(st, i), cur.S), Sort: v.S.SortOf(f.Type()), T: f.Type()}
	}
	return cur
}

func (v *FnVC) indexTerm(a, i Term, env *Env) Term {
	if a.Sort == "Str" {
		return Term{S: fmt.Sprintf("(at_s %s %s)", a.S, i.S), Sort: "Int", T: types.Typ[types.Uint8]}
	}
	if strings.HasPrefix(a.Sort, "(Array ") {
		// spec map/set
		var et types.Type
		if m, ok := a.T.(*types.Map); ok {
			et = m.Elem()
		}
		return Term{S: fmt.Sprintf("(select %s %s)", a.S, i.S), Sort: arrayRange(a.Sort), T: et}
	}
	if a.T != nil {
		switch u := a.T.Underlying().(type) {
		case *types.Slice:
			k := v.elemKey(u.Elem())
			return Term{S: fmt.Sprintf("(select (select %s (sarr %s)) (+ (soff %s) %s))", v.heapGet(env.st, k), a.S, a.S, i.S), Sort: v.S.SortOf(u.Elem()), T: u.Elem()}
		case *types.Array:
			return Term{S: v.arrSelect(a.S, u, i.S), Sort: v.S.SortOf(u.Elem()), T: u.Elem()}
		case *types.Map:
			_, vk, _ := v.mapKeys(u)
			return Term{S: fmt.Sprintf("(select (select %s %s) %s)", v.heapGet(env.st, vk), a.S, i.S), Sort: v.S.SortOf(u.Elem()), T: u.Elem()}
		case *types.Pointer:
			if arr, ok := u.Elem().Underlying().(*types.Array); ok {
				l := v.locFromPtr(a.S, u.Elem())
				whole := v.load(env.st, l)
				return Term{S: v.arrSelect(whole.S, arr, i.S), Sort: v.S.SortOf(arr.Elem()), T: arr.Elem()}
			}
		}
	}
	v.fail("cannot index %s (sort %s)", a.S, a.Sort)
	return Term{}
}

func arrayRange(sort string) string {
	// "(Array K V)" -> V ; handles nested parens
	inner := strings.TrimSuffix(strings.TrimPrefix(sort, "(Array "), ")")
	// split first component
	d := 0
	for i := 0; i < len(inner); i++ {
		switch inner[i] {
		case '(':
			d++
		case ')':
			d--
		case ' ':
			if d == 0 {
				return inner[i+1:]
			}
		}
	}
	return inner
}

func arrayDomain(sort string) string {
	inner := strings.TrimSuffix(strings.TrimPrefix(sort, "(Array "), ")")
	d := 0
	for i := 0; i < len(inner); i++ {
		switch inner[i] {
		case '(':
			d++
		case ')':
			d--
		case ' ':
			if d == 0 {
				return inner[:i]
			}
		}
	}
	return inner
}

func (v *FnVC) evalCall(e *ECall, env *Env) Term {
	// method-style spec calls are not supported; only f(args) and pkg.f(args)
	var name string
	switch f := e.Fun.(type) {
	case *EIdent:
		name = f.Name
	case *ESel:
		if id, ok := f.X.(*EIdent); ok {
			name = id.Name + "." + f.Sel
		}
	}
	if name == "" {
		v.fail("unsupported call %s", e.String())
	}
	switch name {
	case "old":
		return v.evalTerm(e.Args[0], env.atOld())
	case "at", "passed": // at(L, e): e in the state before the call labelled L; passed(L): that call was reached
		if id, ok := e.Args[0].(*EIdent); ok && v.C != nil && len(v.C.Labels) > 0 {
			isLabel := false
			for _, lb := range v.C.Labels {
				if lb.C.Text == id.Name {
					isLabel = true
				}
			}
			if isLabel {
				st := v.labelStates[id.Name]
				if st == nil {
					v.fail("label %s used before the labelled call was encoded (or the call does not exist)", id.Name)
				}
				if name == "passed" {
					return boolT(v.labelGuards[id.Name])
				}
				n := *env
				n.st = st
				site := v.labelSites[id.Name]
				blk, ins := site[0].(*ssa.BasicBlock), site[1].(ssa.Instruction)
				n.lookupAt = func(nm string, s2 *State) (Term, bool) { return v.localByNameAt(nm, blk, ins, s2) }
				n.lookup = nil
				return v.evalTerm(e.Args[1], &n)
			}
		}
		if name == "passed" {
			v.fail("unknown identifier: label %s of passed() is not a label of this function", e.Args[0].String())
		}
		a := v.evalTerm(e.Args[0], env)
		i := v.evalTerm(e.Args[1], env)
		return v.indexTerm(a, i, env)
	case "len":
		a := v.evalTerm(e.Args[0], env)
		return v.lenTerm(a, env)
	case "cap":
		a := v.evalTerm(e.Args[0], env)
		return intT(fmt.Sprintf("(scap %s)", a.S))
	case "has": // has(m, k): key present in Go map or spec set
		m := v.evalTerm(e.Args[0], env)
		k := v.evalTerm(e.Args[1], env)
		if m.T != nil {
			if mt, ok := m.T.Underlying().(*types.Map); ok {
				d, _, _ := v.mapKeys(mt)
				// a nil map has no keys
				return boolT(fmt.Sprintf("(and (not (= %s 0)) (select (select %s %s) %s))", m.S, v.heapGet(env.st, d), m.S, k.S))
			}
		}
		return boolT(fmt.Sprintf("(select %s %s)", m.S, k.S))
	case "ite":
		c := v.evalBool(e.Args[0], env)
		a := v.evalTerm(e.Args[1], env)
		b := v.evalTerm(e.Args[2], env)
		a, b = v.unifyNil(a, b)
		return Term{S: fmt.Sprintf("(ite %s %s %s)", c, a.S, b.S), Sort: a.Sort, T: a.T}
	case "typeOf": // dynamic type tag of an interface value
		a := v.evalTerm(e.Args[0], env)
		return intT(fmt.Sprintf("(itag %s)", a.S))
	case "isType": // isType(x, "T"): dynamic type of x is T
		a := v.evalTerm(e.Args[0], env)
		ts := e.Args[1].(*EStr).V
		t, _ := v.W.resolveType(ts, env.pkg)
		if t == nil {
			v.fail("isType: cannot resolve %q", ts)
		}
		return boolT(fmt.Sprintf("(= (itag %s) %d)", a.S, v.tagOf(t)))
	case "implements": // implements(x, "pkg.Iface"): the dynamic type of x implements the interface (false for nil)
		a := v.evalTerm(e.Args[0], env)
		ts := e.Args[1].(*EStr).V
		t, _ := v.W.resolveType(ts, env.pkg)
		if t == nil {
			v.fail("implements: cannot resolve %q", ts)
		}
		it, ok := t.Underlying().(*types.Interface)
		if !ok {
			v.fail("implements: %q is not an interface", ts)
		}
		return boolT(fmt.Sprintf("(%s (itag %s))", v.implFunc(it, t), a.S))
	case "$assert", "as": // x.(T) / as(x, "T")
		a := v.evalTerm(e.Args[0], env)
		ts := e.Args[1].(*EStr).V
		t, _ := v.W.resolveType(ts, env.pkg)
		if t == nil {
			v.fail("type assertion: cannot resolve %q", ts)
		}
		return Term{S: v.S.Unbox(fmt.Sprintf("(ival %s)", a.S), t), Sort: v.S.SortOf(t), T: t}
	case "iface": // iface(x): wrap concrete value in interface
		a := v.evalTerm(e.Args[0], env)
		if a.T == nil {
			v.fail("iface() of untyped term")
		}
		return Term{S: fmt.Sprintf("(mkIface %d %s)", v.tagOf(a.T), v.S.Box(a, a.T)), Sort: "Iface"}
	case "store": // store(m, k, v) on spec maps
		m := v.evalTerm(e.Args[0], env)
		k := v.evalTerm(e.Args[1], env)
		x := v.evalTerm(e.Args[2], env)
		return Term{S: fmt.Sprintf("(store %s %s %s)", m.S, k.S, x.S), Sort: m.Sort}
	case "substr":
		a := v.evalTerm(e.Args[0], env)
		lo := v.evalTerm(e.Args[1], env)
		hi := v.evalTerm(e.Args[2], env)
		return Term{S: v.substr(a.S, lo.S, hi.S), Sort: "Str", T: a.T}
	case "domOf": // domain set of a Go map
		m := v.evalTerm(e.Args[0], env)
		mt := m.T.Underlying().(*types.Map)
		d, _, _ := v.mapKeys(mt)
		return Term{S: fmt.Sprintf("(select %s %s)", v.heapGet(env.st, d), m.S), Sort: fmt.Sprintf("(Array %s Bool)", v.S.SortOf(mt.Key()))}
	case "fresh": // fresh(x): object x was allocated by the call whose postcondition this is
		a := v.evalTerm(e.Args[0], env)
		pre, ok := env.vars["$allocPre"]
		if !ok {
			v.fail("fresh() is only meaningful in a callee postcondition")
		}
		ref := a.S
		if a.Sort == "Slice" {
			ref = fmt.Sprintf("(sarr %s)", a.S)
		}
		return boolT(fmt.Sprintf("(>= %s %s)", ref, pre.S))
	case "addrOf": // addrOf(x.f): the address of a struct-typed field (as the SSA encoding names interior pointers)
		sel, ok := e.Args[0].(*ESel)
		if !ok {
			v.fail("addrOf needs a field selector")
		}
		var base Term
		if bp, ok := v.lvalueBase(sel.X, env); ok {
			base = bp
		} else {
			base = v.evalTerm(sel.X, env)
		}
		if base.T == nil {
			v.fail("addrOf: untyped base")
		}
		stT := deref(base.T)
		st, isS := structOf(stT)
		if _, isP := base.T.Underlying().(*types.Pointer); !isP || !isS {
			v.fail("addrOf: base must be a pointer to a struct")
		}
		for k := 0; k < st.NumFields(); k++ {
			if st.Field(k).Name() == sel.Sel {
				l := &Loc{Kind: LField, Key: v.fieldKey(stT, st.Field(k)), Ref: base.S, T: st.Field(k).Type(), RootT: st.Field(k).Type()}
				return Term{S: v.ptrTerm(l), Sort: "Int", T: types.NewPointer(st.Field(k).Type())}
			}
		}
		v.fail("addrOf: no field %s", sel.Sel)
	case "arrOf": // identity of the backing array of a slice (0 for nil)
		a := v.evalTerm(e.Args[0], env)
		if a.Sort != "Slice" {
			v.fail("arrOf of non-slice")
		}
		return intT(fmt.Sprintf("(sarr %s)", a.S))
	case "refOf": // identity of the object behind an interface value / pointer
		a := v.evalTerm(e.Args[0], env)
		if a.Sort == "Iface" {
			return intT(fmt.Sprintf("(ival %s)", a.S))
		}
		return intT(a.S)
	case "elemsOf": // contents of a slice as an array indexed from 0 (slices have offset 0 in the model)
		a := v.evalTerm(e.Args[0], env)
		sl, ok := a.T.Underlying().(*types.Slice)
		if !ok {
			v.fail("elemsOf of non-slice")
		}
		k := v.elemKey(sl.Elem())
		return Term{S: fmt.Sprintf("(select %s (sarr %s))", v.heapGet(env.st, k), a.S), Sort: fmt.Sprintf("(Array Int %s)", v.S.SortOf(sl.Elem())), T: types.NewMap(types.Typ[types.Int], sl.Elem())}
	case "chanlen":
		c := v.evalTerm(e.Args[0], env)
		k := v.regKey("CH:len", "(Array Int Int)")
		return intT(fmt.Sprintf("(select %s %s)", v.heapGet(env.st, k), c.S))
	case "cur": // cur(x): the current value of the (re-assigned) parameter or local x at this program point
		id, ok := e.Args[0].(*EIdent)
		if !ok {
			v.fail("cur() needs a variable name")
		}
		if env.lookupAt != nil {
			if t, ok := env.lookupAt(id.Name, env.st); ok {
				return t
			}
		}
		if env.lookup != nil {
			if t, ok := env.lookup(id.Name); ok {
				return t
			}
		}
		return v.evalIdent(id.Name, env)
	case "chanclosed": // chanclosed(c): close(c) has been executed
		c := v.evalTerm(e.Args[0], env)
		k := v.regKey("CH:closed", "(Array Int Bool)")
		return boolT(fmt.Sprintf("(select %s %s)", v.heapGet(env.st, k), c.S))
	case "runeAt", "runeWidth": // the rune decoded at byte position p of s (as range-over-string does) and its width in bytes
		a := v.evalTerm(e.Args[0], env)
		b := v.evalTerm(e.Args[1], env)
		v.S.declFun("rune_at", "(Str Int) Int")
		v.S.declFun("rune_w", "(Str Int) Int")
		if name == "runeAt" {
			return Term{S: fmt.Sprintf("(rune_at %s %s)", a.S, b.S), Sort: "Int", T: types.Typ[types.Rune]}
		}
		return intT(fmt.Sprintf("(rune_w %s %s)", a.S, b.S))
	case "chanFired":
		c := v.evalTerm(e.Args[0], env)
		v.S.declFun("chan_fired", "(Int) Bool")
		return boolT(fmt.Sprintf("(chan_fired %s)", c.S))
	case "chancap":
		c := v.evalTerm(e.Args[0], env)
		v.S.declFun("chan_cap", "(Int) Int")
		return intT(fmt.Sprintf("(ite (= %s 0) 0 (chan_cap %s))", c.S, c.S))
	case "iterpos": // position/visited-set of the range iterator of the current loop
		if t, ok := env.vars["$pos"]; ok {
			return t
		}
		if env.lookup != nil {
			if t, ok := env.lookup("$pos"); ok {
				return t
			}
		}
		v.fail("iterpos() outside a range loop")
	}
	sf := v.W.SpecFunc(name, env.pkg)
	if sf == nil {
		v.fail("unknown spec function %q", name)
	}
	if len(sf.Params) != len(e.Args) {
		v.fail("spec function %s: %d args expected, %d given", name, len(sf.Params), len(e.Args))
	}
	var args []Term
	for _, a := range e.Args {
		args = append(args, v.evalTerm(a, env))
	}
	return v.applySpec(sf, args, env)
}

func (v *FnVC) tagOf(t types.Type) int {
	n := v.S.TagOf(t)
	return n
}

func (v *FnVC) lenTerm(a Term, env *Env) Term {
	switch a.Sort {
	case "Str":
		return intT(fmt.Sprintf("(len_s %s)", a.S))
	case "Slice":
		return intT(fmt.Sprintf("(slen %s)", a.S))
	}
	if a.T != nil {
		switch u := a.T.Underlying().(type) {
		case *types.Map:
			_, _, l := v.mapKeys(u)
			return intT(fmt.Sprintf("(select %s %s)", v.heapGet(env.st, l), a.S))
		case *types.Array:
			return intT(fmt.Sprint(u.Len()))
		case *types.Chan:
			k := v.regKey("CH:len", "(Array Int Int)")
			return intT(fmt.Sprintf("(select %s %s)", v.heapGet(env.st, k), a.S))
		}
	}
	v.fail("len of %s (sort %s)", a.S, a.Sort)
	return Term{}
}

// applySpec applies a spec function: pure = macro expansion; rec/uninterp = SMT function (+ ground unfolding for rec).
func (v *FnVC) applySpec(sf *SpecFunc, args []Term, env *Env) Term {
	specPkg := v.W.PkgTypes(sf.Pkg)
	if specPkg == nil {
		specPkg = env.pkg
	}
	for i := range args {
		if args[i].Sort == "Nil" {
			_, so := v.sortOfSpecType(sf.Params[i].Type, specPkg)
			args[i] = v.nilOf(Term{Sort: so})
		}
	}
	switch sf.Kind {
	case "pure":
		if env.depth > 40 {
			v.fail("spec function expansion too deep at %s", sf.Name)
		}
		ne := &Env{v: v, vars: map[string]Term{}, st: env.st, old: env.old, pkg: specPkg, depth: env.depth + 1}
		for i, p := range sf.Params {
			t, so := v.sortOfSpecType(p.Type, specPkg)
			a := args[i]
			if a.Sort != so {
				v.fail("spec function %s: argument %d has sort %s, want %s", sf.Name, i, a.Sort, so)
			}
			if a.T == nil {
				a.T = t
			}
			ne.vars[p.Name] = a
		}
		r := v.evalTerm(sf.Body, ne)
		rt, rso := v.sortOfSpecType(sf.Ret, specPkg)
		if r.Sort == "Nil" {
			r = v.nilOf(Term{Sort: rso})
		}
		if r.Sort != rso {
			v.fail("spec function %s: body sort %s, declared %s", sf.Name, r.Sort, rso)
		}
		if r.T == nil {
			r.T = rt
		}
		return r
	}
	// uninterpreted / recursive
	var sig, as []string
	for i, p := range sf.Params {
		_, so := v.sortOfSpecType(p.Type, specPkg)
		if args[i].Sort != so {
			v.fail("spec function %s: argument %d has sort %s, want %s", sf.Name, i, args[i].Sort, so)
		}
		sig = append(sig, so)
		as = append(as, args[i].S)
	}
	rt, rso := v.sortOfSpecType(sf.Ret, specPkg)
	fname := "sf_" + sanitize(sf.Name)
	v.S.declFun(fname, "("+strings.Join(sig, " ")+") "+rso)
	var app string
	if len(as) == 0 {
		app = fname
	} else {
		app = "(" + fname + " " + strings.Join(as, " ") + ")"
	}
	if sf.Kind == "rec" {
		v.queueRec(sf, args, 2)
		v.recFrameAxiom(sf, fname, sig, specPkg)
	}
	return Term{S: app, Sort: rso, T: rt}
}

func (v *FnVC) queueRec(sf *SpecFunc, args []Term, fuel int) {
	var as []string
	for _, a := range args {
		as = append(as, a.S)
	}
	key := sf.Name + "(" + strings.Join(as, ",") + ")"
	if v.recApps[key] {
		return
	}
	// an application to a quantified variable cannot be unfolded as a ground instance: the function gets its
	// defining equation as a quantified axiom with the application as pattern (once per function)
	for _, a := range as {
		if strings.Contains(a, "q_") {
			v.recQuantAxiom(sf)
			return
		}
	}
	v.recApps[key] = true
	v.recQueue = append(v.recQueue, recApp{sf, args, fuel})
}

// recQuantAxiom: forall params. f(params) = body, pattern f(params). Evaluated over the entry heap like the ground
// unfoldings. Instantiation is driven by the occurrences of f in the goal; failing goals come back unknown.
func (v *FnVC) recQuantAxiom(sf *SpecFunc) {
	if v.implFacts["recquant:"+sf.Name] {
		return
	}
	v.implFacts["recquant:"+sf.Name] = true
	specPkg := v.W.PkgTypes(sf.Pkg)
	ne := &Env{v: v, vars: map[string]Term{}, st: v.entry, old: v.entry, pkg: specPkg}
	var binds, as []string
	for _, p := range sf.Params {
		t, so := v.sortOfSpecType(p.Type, specPkg)
		v.fresh++
		name := fmt.Sprintf("q_rec_%s_%d", p.Name, v.fresh)
		ne.vars[p.Name] = Term{S: name, Sort: so, T: t}
		binds = append(binds, fmt.Sprintf("(%s %s)", name, so))
		as = append(as, name)
	}
	fname := "sf_" + sanitize(sf.Name)
	app := "(" + fname + " " + strings.Join(as, " ") + ")"
	body := v.evalTerm(sf.Body, ne)
	_, rso := v.sortOfSpecType(sf.Ret, specPkg)
	if body.Sort == "Nil" {
		body = v.nilOf(Term{Sort: rso})
	}
	v.asserts = append(v.asserts, fmt.Sprintf("(forall (%s) (! (= %s %s) :pattern (%s)))", strings.Join(binds, " "), app, body.S, app))
	v.note("recursive spec function %s is applied to quantified arguments: defined by a quantified axiom (pattern-driven unfolding)", sf.Name)
}

// flushRec emits ground unfoldings f(args) = body[args] for queued applications.
func (v *FnVC) flushRec() {
	for len(v.recQueue) > 0 {
		ra := v.recQueue[0]
		v.recQueue = v.recQueue[1:]
		v.unfoldRec(ra)
	}
}

var recFuel = 0

func (v *FnVC) unfoldRec(ra recApp) {
	sf := ra.f
	specPkg := v.W.PkgTypes(sf.Pkg)
	// rec functions are evaluated over the entry heap (they range over inputs the function does not modify)
	ne := &Env{v: v, vars: map[string]Term{}, st: v.entry, old: v.entry, pkg: specPkg}
	var as []string
	for i, p := range sf.Params {
		t, _ := v.sortOfSpecType(p.Type, specPkg)
		a := ra.args[i]
		if a.T == nil {
			a.T = t
		}
		ne.vars[p.Name] = a
		as = append(as, a.S)
	}
	fname := "sf_" + sanitize(sf.Name)
	app := "(" + fname + " " + strings.Join(as, " ") + ")"
	save := recFuel
	recFuel = ra.fuel
	before := len(v.recQueue)
	body := v.evalTerm(sf.Body, ne)
	recFuel = save
	if ra.fuel <= 0 {
		// drop nested applications queued during this unfolding
		for _, q := range v.recQueue[before:] {
			var qs []string
			for _, a := range q.args {
				qs = append(qs, a.S)
			}
			delete(v.recApps, q.f.Name+"("+strings.Join(qs, ",")+")")
		}
		v.recQueue = v.recQueue[:before]
	} else {
		for i := before; i < len(v.recQueue); i++ {
			v.recQueue[i].fuel = ra.fuel - 1
		}
	}
	_, rso := v.sortOfSpecType(sf.Ret, specPkg)
	if body.Sort == "Nil" {
		body = v.nilOf(Term{Sort: rso})
	}
	v.asserts = append(v.asserts, fmt.Sprintf("(= %s %s)", app, body.S))
}

// emitAxioms asserts the axioms in scope that mention a spec symbol used by this function's VC (demand driven,
// iterated to a fixpoint because an axiom may bring in further symbols).
func (v *FnVC) emitAxioms() {
	var fpkg *types.Package
	if v.Fn != nil && v.Fn.Pkg != nil {
		fpkg = v.Fn.Pkg.Pkg
	}
	axs := v.W.AxiomsFor(fpkg)
	done := map[*Axiom]bool{}
	for changed := true; changed; {
		changed = false
		for _, ax := range axs {
			if done[ax] || ax == v.provingLemma {
				continue
			}
			syms := v.W.axiomSymbols(ax)
			use := len(syms) == 0 && !ax.IsLemma
			for _, sname := range syms {
				if v.S.funcs["sf_"+sanitize(sname)] {
					use = true
				}
			}
			if !use {
				continue
			}
			done[ax] = true
			changed = true
			v.assumedCallees["axiom "+ax.Name+": "+ax.Text] = true
			env := &Env{v: v, vars: map[string]Term{}, st: v.entry, old: v.entry, pkg: v.W.PkgTypes(ax.Pkg)}
			f, ok := v.tryEvalBool(ax.E, env)
			if !ok {
				// mentions an unexported name of a package that is only present as export data in this run:
				// the axiom is about state this function cannot touch
				delete(v.assumedCallees, "axiom "+ax.Name+": "+ax.Text)
				continue
			}
			v.asserts = append(v.asserts, f)
		}
	}
}

// axiomSymbols lists the uninterpreted / recursive spec functions an axiom mentions (through pure functions too).
func (w *World) axiomSymbols(ax *Axiom) []string {
	seen := map[string]bool{}
	var out []string
	var walk func(e Expr)
	walk = func(e Expr) {
		switch x := e.(type) {
		case *EUnary:
			walk(x.X)
		case *EBinary:
			walk(x.X)
			walk(x.Y)
		case *ECond:
			walk(x.C)
			walk(x.A)
			walk(x.B)
		case *EQuant:
			walk(x.Body)
		case *ESel:
			walk(x.X)
		case *EIndex:
			walk(x.X)
			walk(x.I)
		case *ESlice:
			walk(x.X)
		case *ECall:
			for _, a := range x.Args {
				walk(a)
			}
			if id, ok := x.Fun.(*EIdent); ok {
				if sf := w.specFuncs[id.Name]; sf != nil && !seen[id.Name] {
					seen[id.Name] = true
					if sf.Kind == "pure" {
						walk(sf.Body)
					} else {
						out = append(out, sf.Name)
					}
				}
			}
		}
	}
	walk(ax.E)
	return out
}

// loopEnv builds the environment for a loop invariant.
func (v *FnVC) loopEnv(h *ssa.BasicBlock, li *LoopInfo, phiVal func(*ssa.Phi) Term) *Env {
	env := v.baseEnv()
	st := v.cur
	env.st = st
	env.cur = true
	phiByName := map[string]*ssa.Phi{}
	for _, ins := range h.Instrs {
		if p, ok := ins.(*ssa.Phi); ok {
			if p.Comment != "" {
				phiByName[p.Comment] = p
			}
		} else {
			break
		}
	}
	env.lookup = func(name string) (Term, bool) {
		if name == "$pos" {
			// the range iterator feeding this loop
			for b := range li.Blocks {
				for _, ins := range b.Instrs {
					if nx, ok := ins.(*ssa.Next); ok {
						if k, ok := v.iterKeys[nx.Iter]; ok {
							return Term{S: v.heapGet(st, k), Sort: v.heapSorts[k]}, true
						}
					}
				}
			}
			return Term{}, false
		}
		if p, ok := phiByName[name]; ok {
			if phiVal != nil {
				return phiVal(p), true
			}
			return v.val(p), true
		}
		if name == "outerindex" {
			// the range index of the nearest enclosing range-over-slice loop
			var best *LoopInfo
			var bestH *ssa.BasicBlock
			for oh, ol := range v.loops {
				if ol == li || !ol.Blocks[h] {
					continue
				}
				hasIdx := false
				for _, ins := range oh.Instrs {
					if p, ok := ins.(*ssa.Phi); ok && p.Comment == "rangeindex" {
						hasIdx = true
					}
				}
				if hasIdx && (best == nil || len(ol.Blocks) < len(best.Blocks)) {
					best, bestH = ol, oh
				}
			}
			if bestH != nil {
				for _, ins := range bestH.Instrs {
					if p, ok := ins.(*ssa.Phi); ok && p.Comment == "rangeindex" {
						return v.val(p), true
					}
				}
			}
			return Term{}, false
		}
		return v.localByName(name, h, st)
	}
	return env
}

func (v *FnVC) loopEnvAtHeader(h *ssa.BasicBlock, li *LoopInfo) *Env {
	env := v.loopEnv(h, li, nil)
	if hs, ok := v.hdrStates[h]; ok {
		env.st = hs
		st := hs
		inner := env.lookup
		env.lookup = func(name string) (Term, bool) {
			if name == "$pos" {
				for b := range li.Blocks {
					for _, ins := range b.Instrs {
						if nx, ok := ins.(*ssa.Next); ok {
							if k, ok := v.iterKeys[nx.Iter]; ok {
								return Term{S: v.heapGet(st, k), Sort: v.heapSorts[k]}, true
							}
						}
					}
				}
			}
			return inner(name)
		}
	}
	return env
}

// localByNameAt: the value of a source-level local just before instruction `before` in block blk.
func (v *FnVC) localByNameAt(name string, blk *ssa.BasicBlock, before ssa.Instruction, st *State) (Term, bool) {
	if t, ok := v.cellVar(name, st); ok {
		return t, true
	}
	var best ssa.Value
	var bestAddr bool
	for _, ins := range blk.Instrs {
		if ins == before {
			break
		}
		if d, ok := ins.(*ssa.DebugRef); ok && identName(d) == name {
			best, bestAddr = d.X, d.IsAddr
		}
	}
	if best != nil {
		if bestAddr {
			return v.load(st, v.locOf(best)), true
		}
		return v.val(best), true
	}
	// header phis of the block
	for _, ins := range blk.Instrs {
		if p, ok := ins.(*ssa.Phi); ok && p.Comment == name {
			return v.val(p), true
		}
	}
	return v.localByName(name, blk, st)
}

// cellVar: a source-level variable that lives in a memory cell (captured by a closure or address-taken), when the
// function has exactly one variable of that name. The debug reference at its definition names the assigned value,
// not the cell, so such variables are read from their cell in the given state.
func (v *FnVC) cellVar(name string, st *State) (Term, bool) {
	var found *ssa.Alloc
	n := 0
	for _, b := range v.Fn.Blocks {
		for _, ins := range b.Instrs {
			if a, ok := ins.(*ssa.Alloc); ok && a.Comment == name {
				found = a
				n++
			}
		}
	}
	if n != 1 {
		return Term{}, false
	}
	if _, defined := v.ptrs[found]; !defined {
		if _, d2 := v.vals[found]; !d2 {
			return Term{}, false
		}
	}
	return v.load(st, v.locOf(found)), true
}

// localByName finds the SSA value bound to a source-level local at the entry of block at.
func (v *FnVC) localByName(name string, at *ssa.BasicBlock, st *State) (Term, bool) {
	if name == "outerindex" || name == "outerindex2" {
		// range index of the first / second range-over-slice loop that encloses the innermost one around `at`
		type cand struct {
			n   int
			phi *ssa.Phi
		}
		var cs []cand
		for h, l := range v.loops {
			if !l.Blocks[at] {
				continue
			}
			for _, ins := range h.Instrs {
				if p, ok := ins.(*ssa.Phi); ok && p.Comment == "rangeindex" {
					cs = append(cs, cand{len(l.Blocks), p})
				}
			}
		}
		sort.Slice(cs, func(i, j int) bool { return cs[i].n < cs[j].n })
		k := 1
		if name == "outerindex2" {
			k = 2
		}
		if k < len(cs) {
			if _, defined := v.vals[cs[k].phi]; defined {
				return v.val(cs[k].phi), true
			}
		}
		return Term{}, false
	}
	if t, ok := v.cellVar(name, st); ok {
		return t, true
	}
	var best ssa.Value
	var bestAddr bool
	var bestBlock *ssa.BasicBlock
	bestIdx := -1
	for _, b := range v.Fn.Blocks {
		if !b.Dominates(at) {
			continue
		}
		for i, ins := range b.Instrs {
			var val ssa.Value
			isAddr := false
			switch d := ins.(type) {
			case *ssa.Phi:
				// a phi carries the name of the source variable it merges: the variable's value from this block on
				if d.Comment != name {
					continue
				}
				val = d
			case *ssa.DebugRef:
				if identName(d) != name || b == at {
					continue // debug refs inside `at` itself come after its entry
				}
				val, isAddr = d.X, d.IsAddr
			default:
				continue
			}
			// prefer the dominating block closest to `at`, and the last binding inside it
			if bestBlock == nil || (bestBlock.Dominates(b) && (b != bestBlock || i > bestIdx)) {
				best, bestAddr, bestBlock, bestIdx = val, isAddr, b, i
			}
		}
	}
	if best == nil {
		return Term{}, false
	}
	if bestAddr {
		l := v.locOf(best)
		return v.load(st, l), true
	}
	if _, defined := v.vals[best]; !defined {
		if _, isPhi := best.(*ssa.Phi); isPhi {
			return Term{}, false // a phi of a block that is not encoded yet
		}
	}
	return v.val(best), true
}

func (v *FnVC) baseEnv() *Env {
	env := &Env{v: v, vars: map[string]Term{}, st: v.cur, old: v.entry, pkg: v.Fn.Pkg.Pkg}
	for _, p := range v.Fn.Params {
		env.vars[p.Name()] = v.vals[p]
	}
	for _, fv := range v.Fn.FreeVars {
		// captured variables are pointers to the cell; expose by name as the cell content
		env.vars["&"+fv.Name()] = v.vals[fv]
	}
	// fresh(x) in the function's own invariants / assertions: x was allocated since the function was entered
	if v.entry != nil && v.entry.alloc != "" {
		env.vars["$allocPre"] = intT(v.entry.alloc)
	}
	return env
}

// addrOfLocal returns the address of an address-taken local variable by source name.
func (v *FnVC) addrOfLocal(name string) (Term, bool) {
	// a variable that lives in a cell (captured or address-taken): the unique allocation of that name
	var found *ssa.Alloc
	n := 0
	for _, b := range v.Fn.Blocks {
		for _, ins := range b.Instrs {
			if a, ok := ins.(*ssa.Alloc); ok && a.Comment == name && a.Heap {
				found = a
				n++
			}
		}
	}
	if n == 1 {
		if _, defined := v.vals[found]; defined {
			return Term{S: v.val(found).S, Sort: "Int", T: found.Type()}, true
		}
	}
	for _, b := range v.Fn.Blocks {
		for _, ins := range b.Instrs {
			d, ok := ins.(*ssa.DebugRef)
			if !ok || !d.IsAddr || identName(d) != name {
				continue
			}
			if _, isAlloc := d.X.(*ssa.Alloc); !isAlloc {
				continue
			}
			return Term{S: v.val(d.X).S, Sort: "Int", T: d.X.Type()}, true
		}
	}
	return Term{}, false
}

// recFrameAxiom: for a recursive spec function f(a Map[int,T], n int, ...) whose body reads a only at index n-1 and
// recurses on (a, n-1), a store at an index >= n does not change f(a, n, ...). Emitted once per function.
func (v *FnVC) recFrameAxiom(sf *SpecFunc, fname string, sig []string, specPkg *types.Package) {
	if v.implFacts["recframe:"+sf.Name] || len(sf.Params) < 2 || !strings.HasPrefix(sf.Params[0].Type, "Map[int,") || sf.Params[1].Type != "int" {
		return
	}
	v.implFacts["recframe:"+sf.Name] = true
	a, n := sf.Params[0].Name, sf.Params[1].Name
	ok := true
	isNm1 := func(e Expr) bool {
		b, isB := e.(*EBinary)
		if !isB || b.Op != "-" {
			return false
		}
		x, okx := b.X.(*EIdent)
		y, oky := b.Y.(*EInt)
		return okx && oky && x.Name == n && y.V == "1"
	}
	var walk func(e Expr)
	walk = func(e Expr) {
		switch x := e.(type) {
		case *EIdent:
			if x.Name == a {
				ok = false // bare use of the array
			}
		case *EUnary:
			walk(x.X)
		case *EBinary:
			walk(x.X)
			walk(x.Y)
		case *ECond:
			walk(x.C)
			walk(x.A)
			walk(x.B)
		case *ESel:
			walk(x.X)
		case *EIndex:
			if id, isId := x.X.(*EIdent); isId && id.Name == a {
				if !isNm1(x.I) {
					ok = false
				}
				return
			}
			walk(x.X)
			walk(x.I)
		case *ECall:
			if id, isId := x.Fun.(*EIdent); isId && id.Name == sf.Name {
				if len(x.Args) < 2 {
					ok = false
					return
				}
				if id0, is0 := x.Args[0].(*EIdent); !is0 || id0.Name != a || !isNm1(x.Args[1]) {
					ok = false
				}
				for _, r := range x.Args[2:] {
					walk(r)
				}
				return
			}
			for _, r := range x.Args {
				walk(r)
			}
		case *EQuant:
			ok = false
		}
	}
	walk(sf.Body)
	if !ok {
		v.note("recursive spec function %s over an array does not have the prefix shape; no frame axiom", sf.Name)
		return
	}
	var binds, argsA, argsB []string
	for i, so := range sig {
		nm := fmt.Sprintf("fa%d", i)
		binds = append(binds, fmt.Sprintf("(%s %s)", nm, so))
		if i == 0 {
			argsA = append(argsA, "(store fa0 fi fx)")
		} else {
			argsA = append(argsA, nm)
		}
		argsB = append(argsB, nm)
	}
	binds = append(binds, "(fi Int)", fmt.Sprintf("(fx %s)", arrayRange(sig[0])))
	lhs := fmt.Sprintf("(%s %s)", fname, strings.Join(argsA, " "))
	rhs := fmt.Sprintf("(%s %s)", fname, strings.Join(argsB, " "))
	v.asserts = append(v.asserts, fmt.Sprintf("(forall (%s) (! (=> (>= fi fa1) (= %s %s)) :pattern (%s)))", strings.Join(binds, " "), lhs, rhs, lhs))
}

// quantPat builds (forall ((k Int)) body) with an explicit pattern unless the pattern would contain an ite
// (z3 rejects those; it then chooses patterns itself).
func quantPat(body, pat string) string {
	if strings.Contains(pat, "(ite ") {
		return fmt.Sprintf("(forall ((k Int)) %s)", body)
	}
	return fmt.Sprintf("(forall ((k Int)) (! %s :pattern (%s)))", body, pat)
}
