package main

// Lemmas: closed formulas over spec functions proved from the definitions alone, directly or by induction on an
// integer variable (base: var <= 0; step: var > 0 with the statement assumed for var-1, all other variables
// generalised). Proved lemmas are available to function VCs like axioms.

import (
	"fmt"
	"strings"
)

func (w *World) LemmasFor(prop string) []*Axiom {
	var out []*Axiom
	for _, cf := range w.Files {
		for _, l := range cf.Lemmas {
			if hasProp(l.Props, prop) {
				out = append(out, l)
			}
		}
	}
	return out
}

// proveLemma returns the obligations (one for a direct lemma, base and step for an inductive one) with results filled in.
func proveLemma(w *World, l *Axiom, timeoutMs int, sem chan struct{}) ([]*Oblig, error) {
	q, ok := l.E.(*EQuant)
	if !ok || !q.Forall {
		return nil, fmt.Errorf("lemma %s: must be a universally quantified formula", l.Name)
	}
	var obs []*Oblig
	mk := func(kind string) (*FnVC, *Env, map[string]Term) {
		v := NewFnVC(w, nil, nil)
		v.lemmaName = "lemma " + l.Name
		v.provingLemma = l
		v.entry = &State{heap: map[string]string{}, epoch: 0, alloc: v.freshConst("alloc", "Int")}
		v.cur = v.entry
		env := &Env{v: v, vars: map[string]Term{}, st: v.entry, old: v.entry, pkg: w.PkgTypes(l.Pkg)}
		consts := map[string]Term{}
		for _, qv := range q.Vars {
			t, so := v.sortOfSpecType(qv.Type, env.pkg)
			c := Term{S: v.freshConst("lv_"+qv.Name, so), Sort: so, T: t}
			v.assumeWF(c)
			env.vars[qv.Name] = c
			consts[qv.Name] = c
		}
		return v, env, consts
	}
	run := func(v *FnVC, name, goal string, hyps []string) error {
		v.flushRec()
		v.emitAxioms()
		v.flushRec()
		for _, h := range hyps {
			v.asserts = append(v.asserts, h)
		}
		o := &Oblig{Name: "lemma " + l.Name + "/" + name, Kind: "lemma", Fn: "lemma " + l.Name, Guard: "true", Form: goal, Text: l.Text}
		solveOne(v.Context(), o, timeoutMs, sem)
		obs = append(obs, o)
		return nil
	}
	var gerr error
	func() {
		defer func() {
			if r := recover(); r != nil {
				if e, ok := r.(vcError); ok {
					gerr = fmt.Errorf("lemma %s: %s", l.Name, string(e))
					return
				}
				panic(r)
			}
		}()
		if l.Induction == "" {
			v, env, _ := mk("direct")
			goal := v.evalBool(q.Body, env)
			run(v, "direct", goal, nil)
			return
		}
		// base
		{
			v, env, cs := mk("base")
			n, ok := cs[l.Induction]
			if !ok {
				v.fail("induction variable %s is not quantified", l.Induction)
			}
			goal := v.evalBool(q.Body, env)
			run(v, "base", goal, []string{fmt.Sprintf("(<= %s 0)", n.S)})
		}
		// step
		{
			v, env, cs := mk("step")
			n := cs[l.Induction]
			goal := v.evalBool(q.Body, env)
			// induction hypothesis: forall others . P(n-1, others)
			ihEnv := &Env{v: v, vars: map[string]Term{}, st: v.entry, old: v.entry, pkg: env.pkg}
			var binds []string
			for _, qv := range q.Vars {
				if qv.Name == l.Induction {
					ihEnv.vars[qv.Name] = Term{S: fmt.Sprintf("(- %s 1)", n.S), Sort: "Int", T: n.T}
					continue
				}
				c := cs[qv.Name]
				bn := fmt.Sprintf("q_ih_%s", qv.Name)
				binds = append(binds, fmt.Sprintf("(%s %s)", bn, c.Sort))
				ihEnv.vars[qv.Name] = Term{S: bn, Sort: c.Sort, T: c.T}
			}
			ih := v.evalBool(q.Body, ihEnv)
			if len(binds) > 0 {
				ih = fmt.Sprintf("(forall (%s) %s)", strings.Join(binds, " "), ih)
			}
			run(v, "step", goal, []string{fmt.Sprintf("(> %s 0)", n.S), ih})
		}
	}()
	return obs, gerr
}
