package main

// SMT script assembly and the solver portfolio.

import (
	"bytes"
	"context"
	"fmt"
	"os"
	"os/exec"
	"path/filepath"
	"strings"
	"sync"
	"time"
)

type Solver struct {
	Name string
	Args func(timeoutMs int) []string
	Bin  string
}

var crossCheck = false

var solvers = []Solver{
	{Name: "z3-5.1.0", Bin: "z3-new", Args: func(t int) []string { return []string{"-in", fmt.Sprintf("-t:%d", t)} }},
	{Name: "z3-4.8.12", Bin: "/usr/bin/z3", Args: func(t int) []string { return []string{"-in", fmt.Sprintf("-t:%d", t)} }},
	{Name: "cvc5-1.0", Bin: "cvc5", Args: func(t int) []string {
		return []string{"--lang=smt2", "--incremental", fmt.Sprintf("--tlimit-per=%d", t)}
	}},
}

func (v *FnVC) Context() string {
	var b strings.Builder
	b.WriteString("(set-option :produce-models true)\n(set-logic ALL)\n")
	for _, d := range v.S.Prelude() {
		b.WriteString(d)
		b.WriteString("\n")
	}
	for _, d := range v.decls {
		b.WriteString(d)
		b.WriteString("\n")
	}
	for _, a := range v.S.Axioms() {
		b.WriteString("(assert " + a + ")\n")
	}
	for _, a := range v.asserts {
		b.WriteString("(assert ")
		b.WriteString(a)
		b.WriteString(")\n")
	}
	return b.String()
}

func obligQuery(o *Oblig) string {
	g := o.Guard
	if g == "" {
		g = "true"
	}
	return fmt.Sprintf("(assert (and %s (not %s)))", g, o.Form)
}

func runSolver(s Solver, script string, timeoutMs int) (string, float64) {
	return runSolverCtx(context.Background(), s, script, timeoutMs)
}

func runSolverCtx(parent context.Context, s Solver, script string, timeoutMs int) (string, float64) {
	ctx, cancel := context.WithTimeout(parent, time.Duration(timeoutMs+5000)*time.Millisecond)
	defer cancel()
	cmd := exec.CommandContext(ctx, s.Bin, s.Args(timeoutMs)...)
	cmd.Stdin = strings.NewReader(script)
	var out bytes.Buffer
	cmd.Stdout = &out
	cmd.Stderr = &out
	t0 := time.Now()
	cmd.Run()
	return out.String(), time.Since(t0).Seconds()
}

// SolveAll discharges the obligations of one function. First a single incremental z3 run; whatever is not
// proved there is retried individually on all solvers in parallel.
func SolveAll(v *FnVC, timeoutMs int, scratch string, sem chan struct{}) (vacuous bool, ctxStatus string) {
	ctxText := v.Context()
	var b strings.Builder
	b.WriteString(ctxText)
	// vacuity check of the context in its own process (quantified contexts often answer unknown: accepted)
	ctxDone := make(chan string, 1)
	go func() {
		sem <- struct{}{}
		out, _ := runSolver(solvers[0], ctxText+"(check-sat)\n", 3000)
		<-sem
		st := "unknown"
		for _, l := range strings.Split(out, "\n") {
			l = strings.TrimSpace(l)
			if l == "sat" || l == "unsat" || l == "unknown" || l == "timeout" {
				st = l
			}
		}
		ctxDone <- st
	}()
	for i, o := range v.obligs {
		b.WriteString(fmt.Sprintf("(push 1)\n%s\n(echo \"OB %d\")\n(check-sat)\n(pop 1)\n", obligQuery(o), i))
	}
	script := b.String()
	if scratch != "" {
		os.WriteFile(filepath.Join(scratch, sanitize(v.fnName())+".smt2"), []byte(script), 0o644)
	}
	sem <- struct{}{}
	pass1 := 3000
	if timeoutMs < pass1 {
		pass1 = timeoutMs
	}
	out, secs := runSolver(solvers[0], script, pass1)
	<-sem
	lines := strings.Split(out, "\n")
	cur := -2
	per := secs / float64(len(v.obligs)+1)
	for _, l := range lines {
		l = strings.TrimSpace(l)
		switch {
		case l == "CTX":
			cur = -1
		case strings.HasPrefix(l, "OB "):
			fmt.Sscanf(l, "OB %d", &cur)
		case l == "sat" || l == "unsat" || l == "unknown" || l == "timeout":
			if cur == -1 {
				ctxStatus = l
			} else if cur >= 0 && cur < len(v.obligs) {
				v.obligs[cur].Result = l
				v.obligs[cur].Solver = solvers[0].Name
				v.obligs[cur].Secs = per
			}
			cur = -2
		case strings.HasPrefix(l, "(error"):
			if cur >= 0 && cur < len(v.obligs) {
				v.obligs[cur].Result = "error: " + l
			} else {
				v.errs = append(v.errs, l)
			}
		}
	}
	ctxStatus = <-ctxDone
	if ctxStatus == "unsat" {
		vacuous = true
	}
	// second pass: individual queries for everything not decided as expected
	var wg sync.WaitGroup
	for _, o := range v.obligs {
		want := "unsat"
		if o.IsCover {
			want = "sat"
		}
		if o.Result == want && !(crossCheck && !o.IsCover) {
			continue // thorough tier: every obligation is put to all three back ends, also those the batch pass decided
		}
		if o.IsCover && (o.Result == "unknown" || o.Result == "timeout") {
			continue // a cover only fails when it is refuted (unsat); quantified contexts often give unknown
		}
		o := o
		wg.Add(1)
		go func() {
			defer wg.Done()
			solveOne(ctxText, o, timeoutMs, sem)
		}()
	}
	wg.Wait()
	if os.Getenv("GOVC_SPLIT") != "" {
		for _, o := range v.obligs {
			if o.IsCover || o.Result == "unsat" {
				continue
			}
			for k, c := range flattenAnd(o.Form) {
				q := fmt.Sprintf("%s(assert (and %s (not %s)))\n(check-sat)\n", ctxText, o.Guard, c)
				out, _ := runSolver(solvers[0], q, 5000)
				first := strings.TrimSpace(strings.SplitN(strings.TrimSpace(out), "\n", 2)[0])
				if first != "unsat" {
					if len(c) > 300 {
						c = c[:300]
					}
					o.Text += fmt.Sprintf("\n              conjunct %d: %s: %s", k, first, c)
				}
			}
		}
	}
	return
}

// flattenAnd splits an SMT term into its top-level conjuncts (nested binary ands flattened).
func flattenAnd(f string) []string {
	f = strings.TrimSpace(f)
	if !strings.HasPrefix(f, "(and ") {
		return []string{f}
	}
	var parts []string
	body := f[5 : len(f)-1]
	d, start := 0, 0
	for i := 0; i <= len(body); i++ {
		if i == len(body) || (body[i] == ' ' && d == 0) {
			if i > start {
				parts = append(parts, body[start:i])
			}
			start = i + 1
			continue
		}
		switch body[i] {
		case '(':
			d++
		case ')':
			d--
		}
	}
	var out []string
	for _, p := range parts {
		out = append(out, flattenAnd(p)...)
	}
	return out
}

// noRetry: obligations that are expected to stay undecided (listed known findings): not worth a second, longer attempt.
var noRetry = map[string]bool{}

// exemptCheck: set by verify(); exempt obligations are not counted, so they are not worth a second attempt either.
var exemptCheck func(string) string

// retryUndecided: off while the must-fail corpus runs (its failing obligations are expected to be undecided).
var retryUndecided = true

// solveOne decides one obligation with the solver portfolio. An undecided answer (unknown / time-out from every
// back end) is retried once with three times the time limit before it is reported: an obligation that is decided in a
// fraction of a second on an idle machine must not become an alarm because the machine was busy.
func solveOne(ctxText string, o *Oblig, timeoutMs int, sem chan struct{}) {
	if noRetry[o.Name] && timeoutMs > 5000 {
		timeoutMs = 5000 // a listed known finding: expected to fail, not worth the full time limit
	}
	solveOnce(ctxText, o, timeoutMs, sem)
	if retryUndecided && !o.IsCover && !noRetry[o.Name] && (exemptCheck == nil || exemptCheck(o.Name) == "") && o.Result != "unsat" && o.Result != "sat" && o.Result != "disagree" && !strings.HasPrefix(o.Result, "error") {
		if os.Getenv("GOVC_TRACE") != "" {
			fmt.Fprintf(os.Stderr, "retry %s (%s)\n", o.Name, o.Result)
		}
		solveOnce(ctxText, o, 3*timeoutMs, sem)
	}
}

func solveOnce(ctxText string, o *Oblig, timeoutMs int, sem chan struct{}) {
	script := ctxText + obligQuery(o) + "\n(check-sat)\n"
	type res struct {
		solver string
		out    string
		secs   float64
	}
	ch := make(chan res, len(solvers))
	pctx, pcancel := context.WithCancel(context.Background())
	defer pcancel()
	for _, s := range solvers {
		s := s
		go func() {
			sem <- struct{}{}
			sc := script
			if strings.HasPrefix(s.Name, "cvc5") {
				sc = strings.Replace(sc, "(set-logic ALL)", "(set-logic ALL)", 1)
			}
			out, secs := runSolverCtx(pctx, s, sc+"(get-model)\n", timeoutMs)
			<-sem
			ch <- res{s.Name, out, secs}
		}()
	}
	best := ""
	definite := 0
	defer func() {
		if crossCheck && definite == 1 && os.Getenv("GOVC_SINGLE") != "" {
			fmt.Fprintf(os.Stderr, "single-solver: %s decided only by %s (%.2fs)\n", o.Name, o.Solver, o.Secs)
		}
	}()
	for range solvers {
		r := <-ch
		first := strings.TrimSpace(strings.SplitN(strings.TrimSpace(r.out), "\n", 2)[0])
		if first == "unsat" || first == "sat" {
			definite++
		}
		switch first {
		case "unsat":
			if best != "sat" {
				o.Result, o.Solver, o.Secs = "unsat", r.solver, r.secs
				best = "unsat"
				if !crossCheck {
					return
				}
			} else {
				o.Result = "disagree"
			}
		case "sat":
			if best == "unsat" {
				o.Result = "disagree"
			} else {
				o.Result, o.Solver, o.Secs = "sat", r.solver, r.secs
				if i := strings.Index(r.out, "\n"); i >= 0 {
					o.Model = r.out[i+1:]
				}
				best = "sat"
				if !crossCheck {
					return
				}
			}
		default:
			if best == "" {
				if first == "" {
					first = "timeout"
				}
				if strings.HasPrefix(first, "(error") {
					first = "error: " + first
				}
				if o.Result == "" || o.Result == "unknown" || o.Result == "timeout" || strings.HasPrefix(o.Result, "error") {
					o.Result, o.Solver, o.Secs = first, r.solver, r.secs
				}
			}
		}
	}
}
