package main

// Replay of failed obligations against the real code: an in-package Go test (template chosen by obligation name)
// is injected with `go test -overlay` and searches for / replays a concrete input violating the clause.

import (
	"context"
	"encoding/json"
	"flag"
	"fmt"
	"os"
	"os/exec"
	"path/filepath"
	"regexp"
	"strings"
	"time"
)

type ReplayTmpl struct {
	Match string `json:"match"` // regexp on the obligation name
	Pkg   string `json:"pkg"`   // package dir relative to the repo
	Test  string `json:"test"`  // template file under /verif/replay_tmpl/
	Run   string `json:"run"`   // -run pattern
	Props []string `json:"props,omitempty"` // when set: only for checks of these properties
	FailMeansReproduced bool `json:"fail_means_reproduced,omitempty"` // the test is an oracle that passes on the unchanged tree: any test failure is a reproduction
}

func loadReplayIndex(verif string) []ReplayTmpl {
	var idx []ReplayTmpl
	data, err := os.ReadFile(filepath.Join(verif, "replay_tmpl", "index.json"))
	if err != nil {
		return nil
	}
	json.Unmarshal(data, &idx)
	return idx
}

func tryReplay(w *World, prop string, o *Oblig, repo, verif string) *ReplayResult {
	var last *ReplayResult
	tried := 0
	for _, t := range loadReplayIndex(verif) {
		re, err := regexp.Compile(t.Match)
		if err != nil || !re.MatchString(o.Name) {
			continue
		}
		if len(t.Props) > 0 && !hasProp(t.Props, prop) {
			continue
		}
		// every oracle registered for the obligation is tried (at most four) until one reproduces
		rr := runReplay(t, o, repo, verif)
		if rr.Reproduced || tried >= 3 {
			return rr
		}
		last = rr
		tried++
	}
	return last
}

func runReplay(t ReplayTmpl, o *Oblig, repo, verif string) *ReplayResult {
	tmp, err := os.MkdirTemp("", "govc-replay-")
	if err != nil {
		return &ReplayResult{Output: err.Error()}
	}
	defer os.RemoveAll(tmp)
	src := filepath.Join(verif, "replay_tmpl", t.Test)
	ov := map[string]interface{}{"Replace": map[string]string{
		filepath.Join(repo, t.Pkg, "zz_verifreplay_test.go"): src,
	}}
	ovPath := filepath.Join(tmp, "overlay.json")
	data, _ := json.Marshal(ov)
	os.WriteFile(ovPath, data, 0o644)
	modelPath := filepath.Join(tmp, "model.txt")
	os.WriteFile(modelPath, []byte(o.Model), 0o644)
	ctx, cancel := context.WithTimeout(context.Background(), 180*time.Second)
	defer cancel()
	args := []string{"test", "-overlay", ovPath, "-vet=off", "-count=1", "-timeout", "60s", "-run", t.Run, "./" + t.Pkg + "/"}
	cmd := exec.CommandContext(ctx, "go", args...)
	cmd.Dir = repo
	cmd.Env = append(os.Environ(), "GOFLAGS=-mod=mod", "GOPROXY=off", "GOSUMDB=off", "GOTOOLCHAIN=local",
		"VERIF_MODEL="+modelPath, "VERIF_OBLIGATION="+o.Name)
	out, err := cmd.CombinedOutput()
	rr := &ReplayResult{Test: t.Test, Cmd: "cd " + repo + " && go " + strings.Join(args, " "), Output: tail(string(out), 4000)}
	rr.Reproduced = err != nil && (strings.Contains(string(out), "REPRODUCED") || (t.FailMeansReproduced && strings.Contains(string(out), "--- FAIL")))
	return rr
}

func tail(s string, n int) string {
	if len(s) <= n {
		return s
	}
	return s[len(s)-n:]
}

// cmdReplay re-runs the replay recorded in a replay file.
func cmdReplay(args []string) int {
	fs := flag.NewFlagSet("replay", flag.ExitOnError)
	repo := fs.String("repo", "/repo", "repository")
	verif := fs.String("verif", "/verif", "verif dir")
	fs.Parse(args)
	if fs.NArg() < 1 {
		fmt.Fprintln(os.Stderr, "usage: govc replay <replay file>")
		return 2
	}
	data, err := os.ReadFile(fs.Arg(0))
	if err != nil {
		fmt.Fprintln(os.Stderr, err)
		return 2
	}
	var rp map[string]interface{}
	json.Unmarshal(data, &rp)
	name, _ := rp["obligation"].(string)
	model, _ := rp["model"].(string)
	fmt.Printf("obligation: %s\nclause: %v\nat: %v\nsolver status: %v\n", name, rp["clause"], rp["at"], rp["status"])
	o := &Oblig{Name: name, Model: model}
	rr := tryReplay(nil, fmt.Sprint(rp["property"]), o, *repo, *verif)
	if rr == nil {
		fmt.Println("no replay template for this obligation (no-failing-input-found); solver output is in the replay file")
		return 1
	}
	fmt.Println(rr.Cmd)
	fmt.Println(rr.Output)
	if rr.Reproduced {
		fmt.Println("REPRODUCED against the real code")
		return 1
	}
	fmt.Println("not reproduced")
	return 0
}
