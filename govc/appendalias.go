package main

import (
	"fmt"
	"go/types"

	"golang.org/x/tools/go/ssa"
)

// The engine models append() as always returning a fresh backing array (assumption A-append). That model is not
// faithful when append writes in place into spare capacity that another live slice value still covers: the classic
// case is appending to a truncating re-slice x[:k] while the old contents of x are still read. appendAliasRisk finds
// that case on the SSA form and the caller turns it into an obligation (kind append-alias) that cannot be discharged,
// so the assumption is checked where the re-slice is visible in the function instead of being silently assumed.
//
// An append `a = append(s, ...)` is flagged when
//   - s derives (through phis, re-slices, type changes and earlier appends) from a truncating re-slice T = X[..:high]
//     of a slice X (high given and not syntactically len(X)), and
//   - some value V that may share X's backing array (connected to X through phis / re-slices / appends, not counting
//     the path through T itself) is defined before T (its definition dominates T) and has an element-observing use
//     (index, range, call argument, store, return, conversion, ...) at an instruction reachable from the append.
// Values defined after T (the new generation built by the appends) are not flagged: reading them is the intended use
// of a scratch buffer. The in-place filter idiom `out := x[:0]; for _, e := range x { if keep(e) { out = append(out, e) } }`
// is not flagged either: at most one element is appended per iteration of the range over x itself, so the write
// position never passes the read position and every read of x sees the value the fresh-array model gives it
// (x must have no other observing use after the append).
func appendAliasRisk(loops map[*ssa.BasicBlock]*LoopInfo, app ssa.Instruction, c *ssa.CallCommon) string {
	arg := c.Args[0]
	fn := app.Parent()
	if fn == nil {
		return ""
	}
	isSlice := func(t types.Type) bool { _, ok := t.Underlying().(*types.Slice); return ok }
	isAppend := func(c *ssa.Call) bool {
		b, ok := c.Call.Value.(*ssa.Builtin)
		return ok && b.Name() == "append" && len(c.Call.Args) > 0
	}
	isLenOf := func(h, x ssa.Value) bool {
		c, ok := h.(*ssa.Call)
		if !ok {
			return false
		}
		b, ok := c.Call.Value.(*ssa.Builtin)
		return ok && b.Name() == "len" && len(c.Call.Args) == 1 && c.Call.Args[0] == x
	}
	// 1. truncating re-slices the appended-to value derives from
	seen := map[ssa.Value]bool{}
	var truncs []*ssa.Slice
	var back func(x ssa.Value)
	back = func(x ssa.Value) {
		if x == nil || seen[x] {
			return
		}
		seen[x] = true
		switch y := x.(type) {
		case *ssa.Phi:
			for _, e := range y.Edges {
				back(e)
			}
		case *ssa.Slice:
			if isSlice(y.X.Type()) {
				if y.High != nil && !isLenOf(y.High, y.X) {
					truncs = append(truncs, y)
				}
				back(y.X)
			}
		case *ssa.ChangeType:
			back(y.X)
		case *ssa.Call:
			if isAppend(y) {
				back(y.Call.Args[0])
			}
		}
	}
	back(arg)
	if len(truncs) == 0 {
		return ""
	}
	// 2. undirected alias graph of the function
	adj := map[ssa.Value][]ssa.Value{}
	link := func(a, b ssa.Value) {
		if a == nil || b == nil {
			return
		}
		if _, isConst := a.(*ssa.Const); isConst {
			return
		}
		if _, isConst := b.(*ssa.Const); isConst {
			return
		}
		adj[a] = append(adj[a], b)
		adj[b] = append(adj[b], a)
	}
	pos := map[ssa.Instruction]int{}
	for _, b := range fn.Blocks {
		for k, in := range b.Instrs {
			pos[in] = k
			switch y := in.(type) {
			case *ssa.Phi:
				if isSlice(y.Type()) {
					for _, e := range y.Edges {
						link(y, e)
					}
				}
			case *ssa.Slice:
				if isSlice(y.X.Type()) {
					link(y, y.X)
				}
			case *ssa.ChangeType:
				if isSlice(y.Type()) {
					link(y, y.X)
				}
			case *ssa.Call:
				if isAppend(y) {
					link(y, y.Call.Args[0])
				}
			}
		}
	}
	// block reachability from the append
	reach := map[*ssa.BasicBlock]bool{}
	var walk func(b *ssa.BasicBlock)
	walk = func(b *ssa.BasicBlock) {
		for _, s := range b.Succs {
			if !reach[s] {
				reach[s] = true
				walk(s)
			}
		}
	}
	walk(app.Block())
	after := func(u ssa.Instruction) bool {
		if u.Block() == app.Block() && pos[u] > pos[app] {
			return true
		}
		return reach[u.Block()]
	}
	for _, T := range truncs {
		comp := map[ssa.Value]bool{T.X: true}
		work := []ssa.Value{T.X}
		for len(work) > 0 {
			x := work[len(work)-1]
			work = work[:len(work)-1]
			for _, y := range adj[x] {
				if y == ssa.Value(T) || comp[y] {
					continue
				}
				comp[y] = true
				work = append(work, y)
			}
		}
		for V := range comp {
			// defined before T?
			switch d := V.(type) {
			case *ssa.Parameter, *ssa.FreeVar:
			case ssa.Instruction:
				if d.Block() == T.Block() {
					if _, isPhi := V.(*ssa.Phi); !isPhi && pos[d] >= pos[T] {
						continue
					}
				} else if !d.Block().Dominates(T.Block()) {
					continue
				}
			default:
				continue
			}
			refs := V.Referrers()
			if refs == nil {
				continue
			}
			for _, u := range *refs {
				switch y := u.(type) {
				case *ssa.Phi, *ssa.DebugRef:
					continue
				case *ssa.Slice:
					if y.X == V {
						continue
					}
				case *ssa.ChangeType:
					continue
				case *ssa.Call:
					if b, ok := y.Call.Value.(*ssa.Builtin); ok {
						if b.Name() == "len" || b.Name() == "cap" {
							continue
						}
						if b.Name() == "append" && y.Call.Args[0] == V && (len(y.Call.Args) < 2 || y.Call.Args[1] != V) {
							continue
						}
					}
				}
				if filterIdiomRead(loops, app, c, T, V, u, comp) {
					continue
				}
				if after(u) {
					name := V.Name()
					return fmt.Sprintf("append to a slice derived from the truncating re-slice %s[...:%s] while %s (which may share the backing array and was defined before the re-slice) is still used afterwards (%s)", T.X.Name(), T.High.Name(), name, u.String())
				}
			}
		}
	}
	return ""
}

// filterIdiomRead: u is the element read of `range x` in the in-place filter idiom described above.
func filterIdiomRead(loops map[*ssa.BasicBlock]*LoopInfo, app ssa.Instruction, c *ssa.CallCommon, T *ssa.Slice, V ssa.Value, u ssa.Instruction, comp map[ssa.Value]bool) bool {
	if V != T.X || T.Max != nil {
		return false
	}
	isZero := func(x ssa.Value) bool {
		k, ok := x.(*ssa.Const)
		return ok && k.Value != nil && k.Value.ExactString() == "0"
	}
	if !isZero(T.High) || (T.Low != nil && !isZero(T.Low)) {
		return false
	}
	ia, ok := u.(*ssa.IndexAddr)
	if !ok || ia.X != V {
		return false
	}
	inc, ok := ia.Index.(*ssa.BinOp)
	if !ok {
		return false
	}
	phi, ok := inc.X.(*ssa.Phi)
	if !ok || phi.Comment != "rangeindex" {
		return false
	}
	L := loops[phi.Block()]
	if L == nil || !L.Blocks[app.Block()] {
		return false
	}
	// the append is not inside a loop nested in L
	for _, l2 := range loops {
		if l2 != L && l2.Blocks[app.Block()] && L.Blocks[l2.Header] && len(l2.Blocks) < len(L.Blocks) {
			return false
		}
	}
	// exactly one element appended
	if len(c.Args) != 2 {
		return false
	}
	sl1, ok := c.Args[1].(*ssa.Slice)
	if !ok {
		return false
	}
	al, ok := sl1.X.(*ssa.Alloc)
	if !ok || al.Comment != "varargs" {
		return false
	}
	if arr, ok := al.Type().Underlying().(*types.Pointer).Elem().Underlying().(*types.Array); !ok || arr.Len() != 1 {
		return false
	}
	// it is the only append of the chain built from T inside L
	chain := map[ssa.Value]bool{T: true}
	for changed := true; changed; {
		changed = false
		for _, b := range app.Parent().Blocks {
			for _, in := range b.Instrs {
				val, ok := in.(ssa.Value)
				if !ok || chain[val] {
					continue
				}
				switch y := in.(type) {
				case *ssa.Phi:
					for _, e := range y.Edges {
						if chain[e] {
							chain[val] = true
							changed = true
						}
					}
				case *ssa.Slice:
					if chain[y.X] {
						chain[val] = true
						changed = true
					}
				case *ssa.Call:
					if bi, ok := y.Call.Value.(*ssa.Builtin); ok && bi.Name() == "append" && chain[y.Call.Args[0]] {
						chain[val] = true
						changed = true
					}
				}
			}
		}
	}
	n := 0
	for b := range L.Blocks {
		for _, in := range b.Instrs {
			if call, ok := in.(*ssa.Call); ok {
				if bi, ok := call.Call.Value.(*ssa.Builtin); ok && bi.Name() == "append" && chain[call.Call.Args[0]] {
					n++
				}
			}
		}
	}
	return n == 1
}
