package main

// check: the command registered in MANIFEST.json. Runs the verifier for one property, writes evidence,
// prints VIOLATION / KNOWN-FINDING lines.

import (
	"encoding/json"
	"flag"
	"fmt"
	"os"
	"path/filepath"
	"sort"
	"strconv"
	"strings"
	"time"
)

type KnownFinding struct {
	Property   string `json:"property"`
	Obligation string `json:"obligation"`
	Status     string `json:"status"` // known | fixed
	WhatFails  string `json:"what_fails"`
	Commit     string `json:"commit,omitempty"`
	Replay     string `json:"replay,omitempty"`
}

type KnownFile struct {
	Findings []KnownFinding `json:"findings"`
	Fixed    []string       `json:"fixed"`
}

func loadKnown(verifDir string) *KnownFile {
	kf := &KnownFile{}
	data, err := os.ReadFile(filepath.Join(verifDir, "known_findings.json"))
	if err != nil {
		return kf
	}
	json.Unmarshal(data, kf)
	return kf
}

func oblOK(o *Oblig) bool {
	if o.IsCover {
		return o.Result != "unsat" && !strings.HasPrefix(o.Result, "error")
	}
	return o.Result == "unsat"
}

func cmdCheck(args []string) int {
	fs := flag.NewFlagSet("check", flag.ExitOnError)
	repo := fs.String("repo", "/repo", "repository")
	verif := fs.String("verif", "/verif", "verif dir")
	tier := fs.String("tier", "", "quick|thorough")
	dump := fs.String("dump", "", "directory for SMT scripts")
	noEvidence := fs.Bool("no-evidence", false, "do not write evidence (used by self tests)")
	fs.Parse(args)
	if fs.NArg() < 1 {
		fmt.Fprintln(os.Stderr, "usage: govc check [-tier quick|thorough] <property>")
		return 2
	}
	prop := fs.Arg(0)
	if fs.NArg() >= 2 && *tier == "" {
		*tier = fs.Arg(1)
	}
	if *tier == "" {
		*tier = os.Getenv("VERIF_TIER")
	}
	if *tier != "thorough" {
		*tier = "quick"
	}
	seed := 0
	if s := os.Getenv("VERIF_SEED"); s != "" {
		seed, _ = strconv.Atoi(s)
	}
	if *dump != "" {
		os.MkdirAll(*dump, 0o755)
	}
	if *tier == "thorough" {
		crossCheck = true
	}
	for _, k := range loadKnown(*verif).Findings {
		if k.Property == prop && k.Status == "known" {
			noRetry[k.Obligation] = true
		}
	}
	t0 := time.Now()
	res, err := verify(*repo, *verif, prop, *tier, "", *dump, nil)
	if err != nil {
		fmt.Printf("BROKEN: %v\n", err)
		return 2
	}
	rc := report(res, *repo, *verif, seed, !*noEvidence, time.Since(t0).Seconds())
	if rc == 0 && *tier == "thorough" {
		// thorough tier additionally runs the must-fail corpus for this property
		crossCheck = false // the must-fail corpus is run with the portfolio's first definite answer
		if n := runSelftest(*repo, *verif, prop, false); n != 0 {
			fmt.Printf("BROKEN: self-test corpus of %s has %d unexpected results\n", prop, n)
			return 2
		}
	}
	return rc
}

func report(res *RunResult, repo, verif string, seed int, writeEvidence bool, wall float64) int {
	prop := res.Prop
	known := loadKnown(verif)
	knownBy := map[string]KnownFinding{}
	for _, k := range known.Findings {
		if k.Property == prop && k.Status == "known" {
			knownBy[k.Obligation] = k
		}
	}
	var broken []string
	type viol struct {
		o    *Oblig
		fr   *FuncReport
		why  string
		path string
		reproduced bool
	}
	var viols []viol
	var knownHit []KnownFinding
	var exempt []string
	total, discharged, covers := 0, 0, 0
	byBackend := map[string]int{}
	solverS := 0.0
	vcBytes := 0
	var funcs []string
	var samples []interface{}
	assumed := map[string]bool{}
	notes := map[string]bool{}
	for _, fr := range res.Funcs {
		funcs = append(funcs, fr.Name)
		vcBytes += fr.VCBytes
		for _, a := range fr.Assumed {
			assumed[a] = true
		}
		for _, n := range fr.Notes {
			notes[n] = true
		}
		if fr.Vacuous {
			broken = append(broken, fmt.Sprintf("%s: assumptions (requires/axioms/callee postconditions) are contradictory", fr.Name))
			continue
		}
		if fr.Err != "" {
			// a function under contract that can no longer be translated: it passed on the unchanged tree
			o := &Oblig{Name: fr.Name + "/translate#0", Kind: "translate", Fn: fr.Name, Text: fr.Err, Result: "error"}
			viols = append(viols, viol{o: o, fr: fr, why: fr.Err})
			continue
		}
		// a function may legitimately generate no obligation (crash-freedom sweep over code without partial operations)
		for _, o := range fr.Obligs {
			solverS += o.Secs
			if o.IsCover {
				covers++
				if !oblOK(o) && o.Result == "unsat" {
					broken = append(broken, fmt.Sprintf("%s: cover not reachable (vacuity): %s", o.Name, o.Text))
				}
				continue
			}
			if o.Exempt != "" {
				exempt = append(exempt, fmt.Sprintf("%s: %s (solver: %s)", o.Name, o.Exempt, o.Result))
				continue
			}
			if o.Result == "disagree" {
				broken = append(broken, fmt.Sprintf("%s: solvers disagree", o.Name))
				continue
			}
			if k, ok := knownBy[o.Name]; ok {
				if !oblOK(o) {
					knownHit = append(knownHit, k)
				}
				continue
			}
			total++
			if oblOK(o) {
				discharged++
				byBackend[o.Solver]++
				if len(samples) < 6 {
					samples = append(samples, map[string]interface{}{"obligation": o.Name, "clause": o.Text, "guard": "path condition of " + o.Fn, "status": "unsat (discharged)", "backend": o.Solver, "at": o.Pos})
				}
			} else {
				viols = append(viols, viol{o: o, fr: fr, why: o.Result})
			}
		}
	}
	sort.Strings(funcs)
	// replay files
	for i := range viols {
		vl := &viols[i]
		dir := filepath.Join(verif, "replays", prop)
		os.MkdirAll(dir, 0o755)
		path := filepath.Join(dir, sanitize(vl.o.Name)+".json")
		rp := map[string]interface{}{
			"property":   prop,
			"obligation": vl.o.Name,
			"clause":     vl.o.Text,
			"function":   vl.o.Fn,
			"at":         vl.o.Pos,
			"solver":     vl.o.Solver,
			"status":     vl.o.Result,
			"model":      vl.o.Model,
		}
		rr := tryReplay(res.World, prop, vl.o, repo, verif)
		if rr != nil {
			rp["replay"] = rr
			vl.reproduced = rr.Reproduced
		}
		if !vl.reproduced {
			rp["note"] = "no-failing-input-found: the verifier could not discharge this obligation; no concrete input was replayed against the real code"
		}
		writeJSON(path, rp)
		vl.path = path
	}
	// bounded stand-ins of this property (never counted among the obligations)
	var boundedRes []*BoundedResult
	boundedViol := 0
	{
		for _, b := range loadBounded(verif, prop) {
			br := runBounded(b, repo, verif)
			boundedRes = append(boundedRes, br)
			switch br.Status {
			case "violated":
				boundedViol++
				path := boundedReplayFile(verif, prop, br)
				fmt.Printf("bounded check failed: %s: %s\n", br.Name, strings.Join(br.Violations, "; "))
				fmt.Printf("VIOLATION property=%s replay=%s\n", prop, path)
			case "broken":
				broken = append(broken, fmt.Sprintf("bounded check %s did not run: %s", br.Name, tail(br.Output, 400)))
			default:
				fmt.Printf("bounded (not a proof): %s held on %d inputs (%s)\n", br.Name, br.Evaluations, br.Bound)
			}
		}
	}
	// output
	for _, k := range knownHit {
		fmt.Printf("KNOWN-FINDING: property=%s %s [%s]\n", prop, k.WhatFails, k.Obligation)
	}
	for _, b := range broken {
		fmt.Printf("BROKEN: %s\n", b)
	}
	for _, vl := range viols {
		suffix := ""
		if !vl.reproduced {
			suffix = " no-failing-input-found"
		}
		fmt.Printf("obligation failed: %s (%s) %s\n", vl.o.Name, vl.why, vl.o.Text)
		fmt.Printf("VIOLATION property=%s replay=%s%s\n", prop, vl.path, suffix)
	}
	fmt.Printf("%s %s: %d functions under contract, %d/%d obligations discharged, %d known findings, %.1fs\n", prop, res.Tier, len(funcs), discharged, total, len(knownHit), wall)
	if writeEvidence {
		var as []string
		for a := range assumed {
			as = append(as, "callee: "+a)
		}
		for n := range notes {
			as = append(as, "abstraction: "+n)
		}
		sort.Strings(as)
		as = append(standardAssumptions(), as...)
		var kf []string
		for _, k := range knownHit {
			kf = append(kf, k.Obligation+": "+k.WhatFails)
		}
		var trusted []string
		trusted = append(trusted, "govc VC generator (/verif/govc) over go/ssa of golang.org/x/tools v0.29.0", "z3 5.1.0 / z3 4.8.12 / cvc5 1.0 (first definite answer; thorough tier cross-checks)", "go/types, go/packages front end; Go compiler semantics as axiomatised in DESIGN.md section 3/4")
		for a := range assumed {
			if strings.Contains(a, "assumed contract") {
				trusted = append(trusted, "extern contract: "+a)
			}
		}
		sort.Strings(trusted)
		ev := map[string]interface{}{
			"property_id": prop,
			"tier":        res.Tier,
			"seed":        seed,
			"level":       "proof",
			"coverage": map[string]interface{}{
				"obligations":              total,
				"discharged":               discharged,
				"checker_cmd":              fmt.Sprintf("/verif/bin/govc check -tier %s %s", res.Tier, prop),
				"trusted_base":             trusted,
				"functions_under_contract": funcs,
				"by_backend":               byBackend,
				"solver_s":                 solverS,
				"vc_bytes":                 vcBytes,
				"covers_checked":           covers,
				"known_findings":           kf,
				"exempt_obligations":       exempt,
				"packages":                 res.Packages,
				"bounded_checks":           boundedRes,
				"samples":                  samples,
				"explanation":              "every obligation is a verification condition generated from the go/ssa form of the named functions in /repo's working tree (loops cut at invariants, callees replaced by their contracts) and discharged by an SMT solver; obligations listed under known_findings are excluded from the counts",
			},
			"assumptions": as,
			"wall_s":      wall,
			"violations":  len(viols) + boundedViol,
		}
		for _, br := range boundedRes {
			as = append(as, fmt.Sprintf("bounded stand-in (not proved): %s for %s - %s", br.Name, strings.Join(br.Functions, ", "), br.Bound))
		}
		ev["assumptions"] = as
		if len(broken) == 0 && total > 0 {
			writeJSON(filepath.Join(verif, "evidence", prop+".json"), ev)
		} else if total > 0 {
			writeJSON(filepath.Join(verif, "evidence", prop+".json"), ev)
		}
	}
	if len(viols) > 0 || boundedViol > 0 {
		return 1
	}
	if len(broken) > 0 {
		return 2
	}
	if total == 0 {
		fmt.Println("BROKEN: zero obligations")
		return 2
	}
	return 0
}

func standardAssumptions() []string {
	return []string{
		"integers: mathematical Int with the Go type's range assumed for every value; + and - wrap once; * by non-constants, bit operations and floating point are uninterpreted",
		"strings: uninterpreted sort with len/at/concat/substr axioms instantiated on demand; no SMT string theory",
		"heap: Burstall-Bornat field arrays; opaque pointers do not alias struct fields or slice elements; slices obtained from parameters/heap/calls have offset 0; append always yields a fresh backing array",
		"concurrency: no interleavings; go statements apply the callee's contract at the spawn; channel contents are not modelled",
		"panics: outside functions marked nopanic, paths that panic (nil dereference, index out of range, failed type assertion) are pruned, not checked",
		"callees without contract: results havocked; in-module callees havoc all tracked heap unless listed effect-free; external callees are assumed not to touch tracked state except through pointer arguments",
		"termination is not proved except where a decreases clause is given",
	}
}

type ReplayResult struct {
	Reproduced bool   `json:"reproduced"`
	Test       string `json:"test,omitempty"`
	Output     string `json:"output,omitempty"`
	Cmd        string `json:"cmd,omitempty"`
}

// ---------- self test: must-fail / must-pass mutants through an overlay ----------

type Mutant struct {
	Name   string   `json:"name"`
	File   string   `json:"file"` // relative to repo
	Old    string   `json:"old"`
	New    string   `json:"new"`
	Expect []string `json:"expect"` // substrings of obligation names that must fail; empty = must stay green
	Note   string   `json:"note,omitempty"`
}

func cmdSelftest(args []string) int {
	fs := flag.NewFlagSet("selftest", flag.ExitOnError)
	repo := fs.String("repo", "/repo", "repository")
	verif := fs.String("verif", "/verif", "verif dir")
	fs.Parse(args)
	bad := 0
	props := fs.Args()
	if len(props) == 0 {
		ds, _ := filepath.Glob(filepath.Join(*verif, "selftest", "C*.json"))
		for _, d := range ds {
			props = append(props, strings.TrimSuffix(filepath.Base(d), ".json"))
		}
	}
	for _, p := range props {
		bad += runSelftest(*repo, *verif, p, true)
	}
	if bad > 0 {
		fmt.Printf("selftest: %d unexpected results\n", bad)
		return 1
	}
	fmt.Println("selftest: all mutants behaved as expected")
	return 0
}

func runSelftest(repo, verif, prop string, verbose bool) int {
	retryUndecided = false
	defer func() { retryUndecided = true }()
	data, err := os.ReadFile(filepath.Join(verif, "selftest", prop+".json"))
	if err != nil {
		return 0
	}
	var muts []Mutant
	if err := json.Unmarshal(data, &muts); err != nil {
		fmt.Printf("selftest %s: %v\n", prop, err)
		return 1
	}
	bad := 0
	for _, m := range muts {
		path := filepath.Join(repo, m.File)
		src, err := os.ReadFile(path)
		if err != nil {
			fmt.Printf("selftest %s/%s: %v\n", prop, m.Name, err)
			bad++
			continue
		}
		if strings.Count(string(src), m.Old) != 1 {
			fmt.Printf("selftest %s/%s: pattern occurs %d times in %s (skipped: source changed)\n", prop, m.Name, strings.Count(string(src), m.Old), m.File)
			continue
		}
		ov := map[string][]byte{path: []byte(strings.Replace(string(src), m.Old, m.New, 1))}
		res, err := verify(repo, verif, prop, "quick", "", "", ov)
		if err != nil {
			fmt.Printf("selftest %s/%s: %v\n", prop, m.Name, err)
			bad++
			continue
		}
		known := loadKnown(verif)
		isKnown := map[string]bool{}
		for _, k := range known.Findings {
			if k.Property == prop && k.Status == "known" {
				isKnown[k.Obligation] = true
			}
		}
		var failed []string
		if os.Getenv("GOVC_SELFTEST_VERBOSE") == m.Name {
			printHuman(res, true)
		}
		for _, fr := range res.Funcs {
			if fr.Err != "" {
				failed = append(failed, fr.Name+"/translate#0")
			}
			for _, o := range fr.Obligs {
				if !oblOK(o) && !isKnown[o.Name] && o.Exempt == "" {
					failed = append(failed, o.Name)
				}
			}
		}
		okRes := true
		if len(m.Expect) == 0 {
			okRes = len(failed) == 0
		} else {
			for _, e := range m.Expect {
				hit := false
				for _, f := range failed {
					if strings.Contains(f, e) {
						hit = true
					}
				}
				if !hit {
					okRes = false
				}
			}
		}
		if !okRes {
			bad++
			fmt.Printf("selftest %s/%s: UNEXPECTED: expected failing %v, got failing %v\n", prop, m.Name, m.Expect, failed)
		} else if verbose {
			fmt.Printf("selftest %s/%s: ok (failing: %v)\n", prop, m.Name, failed)
		}
	}
	return bad
}
