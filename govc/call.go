package main

// Calls, contracts at call sites, returns, defers, frames.

import (
	"fmt"
	"go/token"
	"go/types"
	"sort"
	"strings"

	"golang.org/x/tools/go/ssa"
)

type retSite struct {
	guard   string
	results []Term
	st      *State
	pos     token.Pos
	blk     *ssa.BasicBlock
	ins     ssa.Instruction
}

// atEntry assumes the preconditions.
func (v *FnVC) atEntry() {
	if v.C == nil {
		return
	}
	env := v.baseEnv()
	env.st = v.entry
	for _, c := range v.C.Requires {
		v.asserts = append(v.asserts, v.evalBool(c.E, env))
	}
	// type invariants of parameters are assumed
	for _, p := range v.Fn.Params {
		v.assumeTypeInv(v.vals[p], env, 1)
	}
}

func (v *FnVC) calleeName(c *ssa.CallCommon) (name string, fn *ssa.Function) {
	if c.IsInvoke() {
		rt := c.Value.Type()
		return fmt.Sprintf("(%s).%s", qualifiedTypeName(rt), c.Method.Name()), nil
	}
	if f := c.StaticCallee(); f != nil {
		return v.W.FuncQualName(f), f
	}
	// call of a function-typed parameter or captured variable: contract "<enclosing function>#<name>$call"
	switch x := c.Value.(type) {
	case *ssa.Parameter:
		if _, isF := x.Type().Underlying().(*types.Signature); isF {
			return fmt.Sprintf("%s#%s$call", v.Fn.String(), x.Name()), nil
		}
	case *ssa.UnOp:
		if fv, ok := x.X.(*ssa.FreeVar); ok && x.Op == token.MUL {
			if _, isF := deref(fv.Type()).Underlying().(*types.Signature); isF {
				return v.funVarContractName(fv.Name()), nil
			}
		}
	case *ssa.FreeVar:
		if _, isF := x.Type().Underlying().(*types.Signature); isF {
			return v.funVarContractName(x.Name()), nil
		}
	case *ssa.Phi:
		// a local variable of function type assigned on several paths: the phi carries the variable's name
		if _, isF := x.Type().Underlying().(*types.Signature); isF && x.Comment != "" {
			return v.funVarContractName(x.Comment), nil
		}
	}
	// call through a package-level variable of function type: contract "pkg.name$var"
	if ld, ok := c.Value.(*ssa.UnOp); ok && ld.Op == token.MUL {
		if g, ok := ld.X.(*ssa.Global); ok && g.Pkg != nil {
			if _, isF := deref(g.Type()).Underlying().(*types.Signature); isF {
				return g.Pkg.Pkg.Path() + "." + g.Name() + "$var", nil
			}
		}
	}
	// call through a function-typed struct field: contract "(pkg.T).field$field" (assumed for every value stored there)
	if ld, ok := c.Value.(*ssa.UnOp); ok && ld.Op == token.MUL {
		if fa, ok := ld.X.(*ssa.FieldAddr); ok {
			st := deref(fa.X.Type())
			if s, ok := structOf(st); ok {
				// a caller-specialised contract "<enclosing function>#<field>$call" (may mention the caller's names) wins
				for f := v.Fn; f != nil; f = f.Parent() {
					n := fmt.Sprintf("%s#%s$call", f.String(), s.Field(fa.Field).Name())
					if v.W.ContractFor(n) != nil {
						return n, nil
					}
				}
				return fmt.Sprintf("(%s).%s$field", qualifiedTypeName(types.Unalias(st)), s.Field(fa.Field).Name()), nil
			}
		}
	}
	// call of a function fetched from a package-level map (a registry): contract "<enclosing function>#<map name>$call"
	if lk, ok := c.Value.(*ssa.Lookup); ok {
		if ld, ok := lk.X.(*ssa.UnOp); ok && ld.Op == token.MUL {
			if g, ok := ld.X.(*ssa.Global); ok {
				return v.funVarContractName(g.Name()), nil
			}
		}
	}
	// any other function-typed local value that the source names (e.g. the result of a map lookup stored in a
	// variable): contract "<enclosing function>#<name>$call"
	if _, isF := c.Value.Type().Underlying().(*types.Signature); isF {
		for _, b := range v.Fn.Blocks {
			for _, ins := range b.Instrs {
				if d, ok := ins.(*ssa.DebugRef); ok && !d.IsAddr && d.X == c.Value {
					if n := identName(d); n != "" {
						return v.funVarContractName(n), nil
					}
				}
			}
		}
	}
	return "", nil
}

// funVarContractName: the contract name for calls through a captured function-typed variable: declared on this
// closure ("<closure>#name$call") or on an enclosing function whose parameter/local it is ("<outer>#name$call").
func (v *FnVC) funVarContractName(name string) string {
	for f := v.Fn; f != nil; f = f.Parent() {
		n := fmt.Sprintf("%s#%s$call", f.String(), name)
		if v.W.ContractFor(n) != nil {
			return n
		}
	}
	return fmt.Sprintf("%s#%s$call", v.Fn.String(), name)
}

func qualifiedTypeName(t types.Type) string {
	return types.TypeString(t, func(p *types.Package) string { return p.Path() })
}

func (v *FnVC) callArgs(c *ssa.CallCommon) []ssa.Value {
	var args []ssa.Value
	if c.IsInvoke() {
		args = append(args, c.Value)
	}
	args = append(args, c.Args...)
	return args
}

func (v *FnVC) encodeGo(i *ssa.Go) {
	v.note("go statement in %s: callee effect applied at spawn (no interleaving)", v.fnName())
	v.encodeCall(i, i.Common(), nil)
}

func (v *FnVC) runDefers(i *ssa.RunDefers) {
	for k := len(v.deferred) - 1; k >= 0; k-- {
		d := v.deferred[k]
		g := v.deferGuards[k]
		if g == "true" {
			v.encodeCall(d, d.Common(), nil)
			continue
		}
		before := v.cur
		after := before.clone()
		v.cur = after
		saveReach := v.reach[v.curBlock]
		v.reach[v.curBlock] = v.define("deferreach", "Bool", fmt.Sprintf("(and %s %s)", saveReach, g))
		v.encodeCall(d, d.Common(), nil)
		// what the deferred call's contract guarantees holds on the paths where the defer statement was reached
		narrowed := v.reach[v.curBlock]
		v.reach[v.curBlock] = v.define("afterdefer", "Bool", fmt.Sprintf("(and %s (=> %s %s))", saveReach, g, narrowed))
		v.cur = v.mergeStates([]mergePart{{cond: g, st: after}, {cond: "true", st: before}})
	}
}

// encodeCall handles Call, Go and Defer (when run).
func (v *FnVC) encodeCall(ins ssa.Instruction, c *ssa.CallCommon, res ssa.Value) {
	if b, ok := c.Value.(*ssa.Builtin); ok {
		v.encodeBuiltin(ins, b, c, res)
		return
	}
	name, fn := v.calleeName(c)
	args := v.callArgs(c)
	if v.C != nil {
		if why := jsonRoundTripRisk(c, v.W.Module); why != "" {
			v.oblige("json-roundtrip", "false", "writing the value with encoding/json and reading it back is the identity (assumed by the contracts): "+why, ins.Pos())
		}
	}
	if name == "(*sync.Once).Do" && len(args) == 2 {
		if mc, ok := args[1].(*ssa.MakeClosure); ok {
			v.encodeOnceDo(ins, args[0], mc)
			v.bindResults(res, nil)
			return
		}
	}
	var argTerms []Term
	for _, a := range args {
		argTerms = append(argTerms, v.val(a))
	}
	sig := c.Signature()
	// closure call through a MakeClosure value
	var closure *ssa.MakeClosure
	if mc, ok := c.Value.(*ssa.MakeClosure); ok && !c.IsInvoke() {
		closure = mc
		fn = mc.Fn.(*ssa.Function)
		name = v.W.FuncQualName(fn)
	}
	if c.IsInvoke() {
		v.panicCheck("nil", fmt.Sprintf("(not (= (itag %s) 0))", argTerms[0].S), "method call on nil interface", ins.Pos())
	}
	var contract *FuncContract
	if name != "" {
		contract = v.W.ContractFor(name)
	}
	origName := name
	if c.IsInvoke() {
		// caller-specialised contract of an interface method call: "<enclosing function>#<Method>$call" (what this
		// caller may assume about the call given the objects it passes; may mention the caller's names; assumed)
		for f := v.Fn; f != nil; f = f.Parent() {
			n := fmt.Sprintf("%s#%s$call", f.String(), c.Method.Name())
			if sc := v.W.ContractFor(n); sc != nil {
				contract, name = sc, n
				break
			}
		}
	}
	if !c.IsInvoke() && fn != nil && closure == nil {
		// caller-specialised contract of a static call that takes a callback: "<enclosing function>#<Callee name>$call"
		// (what this caller may assume about the call given the closure it passes; assumed, listed)
		for f := v.Fn; f != nil; f = f.Parent() {
			n := fmt.Sprintf("%s#%s$call", f.String(), fn.Name())
			if sc := v.W.ContractFor(n); sc != nil {
				contract, name = sc, n
				break
			}
		}
	}
	// Interior pointers (address of a struct field, of a slice element, of a non-escaping local) passed to the
	// callee: the callee sees an object at that address. Materialise the current value there before the call
	// and copy it back afterwards, so that the callee's contract speaks about the caller's storage.
	type mat struct {
		loc  *Loc
		view *Loc
	}
	var mats []mat
	for _, a := range args {
		l, ok := v.ptrs[a]
		if !ok || l.Kind == LObj || (l.Kind == LCell && len(l.Path) == 0) {
			continue
		}
		view := v.locFromPtr(v.ptrTerm(l), l.T)
		v.store(v.cur, view, v.load(v.cur, l))
		mats = append(mats, mat{l, view})
	}
	v.recordLabels(ins, origName)
	v.checkCallAsserts(ins, origName, fn, contract, sig, argTerms)
	v.checkFunArgs(ins, fn, args)
	results := make([]Term, sig.Results().Len())
	if contract != nil {
		v.applyContract(ins, contract, name, fn, closure, sig, argTerms, results)
	} else {
		v.unknownCall(ins, name, fn, c, argTerms)
		for k := range results {
			results[k] = v.havocVal("ret", sig.Results().At(k).Type())
			v.assumeFreshBound(results[k], v.cur)
		}
	}
	// interior / local pointers handed to a callee: copy the callee's view (object at the pointer's address) back
	// into the enclosing storage
	for _, m := range mats {
		v.store(v.cur, m.loc, v.load(v.cur, m.view))
	}
	v.bindResults(res, results)
}

func (v *FnVC) bindResults(res ssa.Value, results []Term) {
	if res == nil {
		return
	}
	switch len(results) {
	case 0:
		v.vals[res] = Term{S: "unit", Sort: "Unit"}
	case 1:
		t := results[0]
		t.T = res.Type()
		v.vals[res] = t
	default:
		v.tuples[res] = results
	}
}

// paramNames for a callee.
func (v *FnVC) paramNames(contract *FuncContract, fn *ssa.Function, sig *types.Signature, invoke bool) []string {
	var names []string
	if len(contract.Params) > 0 {
		for _, p := range contract.Params {
			names = append(names, p.Name)
		}
		return names
	}
	if fn != nil && len(fn.Params) > 0 {
		for _, p := range fn.Params {
			names = append(names, p.Name())
		}
		return names
	}
	if invoke || sig.Recv() != nil {
		rn := "recv"
		if sig.Recv() != nil && sig.Recv().Name() != "" && sig.Recv().Name() != "_" {
			rn = sig.Recv().Name()
		}
		names = append(names, rn)
	}
	for k := 0; k < sig.Params().Len(); k++ {
		n := sig.Params().At(k).Name()
		if n == "" || n == "_" {
			n = fmt.Sprintf("arg%d", k)
		}
		names = append(names, n)
	}
	return names
}

func resultNames(contract *FuncContract, sig *types.Signature) []string {
	var names []string
	if contract != nil && len(contract.Results) > 0 {
		for _, r := range contract.Results {
			names = append(names, r.Name)
		}
		if len(names) == sig.Results().Len() {
			return names
		}
		names = nil
	}
	for k := 0; k < sig.Results().Len(); k++ {
		n := sig.Results().At(k).Name()
		if n == "" || n == "_" {
			n = fmt.Sprintf("result%d", k)
		}
		names = append(names, n)
	}
	return names
}

func (v *FnVC) applyContract(ins ssa.Instruction, contract *FuncContract, name string, fn *ssa.Function, closure *ssa.MakeClosure, sig *types.Signature, args []Term, results []Term) {
	pkg := v.W.PkgTypes(contract.Pkg)
	if fn != nil && fn.Pkg != nil && !contract.Extern {
		pkg = fn.Pkg.Pkg
	}
	pre := v.cur.clone()
	env := &Env{v: v, vars: map[string]Term{}, st: pre, old: pre, pkg: pkg}
	names := v.paramNames(contract, fn, sig, len(args) > sig.Params().Len())
	if len(names) != len(args) {
		v.fail("call to %s: %d parameter names for %d arguments", name, len(names), len(args))
	}
	if strings.HasSuffix(name, "$call") {
		// contract of a call through a function-typed variable of this function: it may mention the caller's names
		for k, t := range v.baseEnv().vars {
			env.vars[k] = t
		}
		blk := v.curBlock
		env.lookupAt = func(n string, st *State) (Term, bool) { return v.localByNameAt(n, blk, ins, st) }
	}
	for k, n := range names {
		env.vars[n] = args[k]
	}
	if closure != nil {
		cf := closure.Fn.(*ssa.Function)
		for k, fv := range cf.FreeVars {
			env.vars["&"+fv.Name()] = v.val(closure.Bindings[k])
		}
	}
	if contract.Extern || contract.Trusted {
		v.assumedCallees[name+" (assumed contract)"] = true
	}
	// preconditions
	short := shortCallee(name)
	for k, c := range contract.Requires {
		if v.C != nil && v.C.File == "(literal scan)" {
			break // functions visited only by the literal scan are not held to their callees' preconditions
		}
		if len(c.Props) > 0 && (v.C == nil || !hasAnyProp(c.Props, v.C.Props)) {
			continue // prop-scoped precondition: not an obligation for callers outside the listed properties
		}
		f := v.evalBool(c.E, env)
		v.oblige(fmt.Sprintf("pre:%s.%d", short, k), f, fmt.Sprintf("precondition of %s: %s", short, c.Text), ins.Pos())
	}
	// effects
	post := v.cur
	if contract.ModifiesAll {
		v.havocAll(post)
	} else {
		for _, m := range contract.Modifies {
			v.havocLoc(m.E, env, post)
		}
		if len(contract.Modifies) > 0 || true {
			na := v.freshConst("alloc", "Int")
			v.asserts = append(v.asserts, fmt.Sprintf("(>= %s %s)", na, post.alloc))
			post.alloc = na
		}
	}
	// results
	rn := resultNames(contract, sig)
	penv := &Env{v: v, vars: map[string]Term{}, st: post, old: pre, pkg: pkg}
	for k, t := range env.vars {
		penv.vars[k] = t
	}
	penv.lookupAt = env.lookupAt
	penv.vars["$allocPre"] = intT(pre.alloc)
	for k := range results {
		results[k] = v.havocVal("ret_"+short, sig.Results().At(k).Type())
		v.assumeFreshBound(results[k], post)
		penv.vars[rn[k]] = results[k]
		penv.vars[fmt.Sprintf("result%d", k)] = results[k]
	}
	if len(results) == 1 {
		penv.vars["result"] = results[0]
	}
	g := v.reach[v.curBlock]
	for _, c := range contract.Ensures {
		if c.Kind == "proves" {
			continue // internal postcondition: proved for the callee's body, not exported to callers
		}
		f, ok := v.tryEvalBool(c.E, penv)
		if !ok {
			continue // the clause mentions a local of the callee: not expressible at the call site (weaker assumption)
		}
		// program-order assumption: it must not constrain the obligations generated before this point (in
		// particular the callee's own precondition), so it narrows the reachability of what follows
		v.narrow(f)
	}
	g = v.reach[v.curBlock]
	// type invariants of results are assumed (the callee establishes them)
	for _, r := range results {
		v.assumeTypeInvG(r, penv, 1, g)
	}
}

func shortCallee(name string) string {
	s := strings.ReplaceAll(name, "github.com/foxcpp/maddy/", "")
	return s
}

// havocLoc havocs the location(s) denoted by a modifies target.
func (v *FnVC) havocLoc(x Expr, env *Env, st *State) {
	switch e := x.(type) {
	case *EIdent:
		if p, ok := env.vars["&"+e.Name]; ok {
			v.havocPointee(p, st)
			return
		}
		if _, bound := env.vars[e.Name]; !bound {
			if p, ok := v.addrOfLocal(e.Name); ok { // an address-taken local of the caller (caller-specialised contracts)
				v.havocPointee(p, st)
				return
			}
		}
		if g := v.W.GhostVar(e.Name); g != nil {
			_, so := v.sortOfSpecType(g.Sort, env.pkg)
			v.havocKey(st, v.regKey("GV:"+e.Name, so))
			return
		}
		// package-level variable
		if env.pkg != nil {
			if o, ok := env.pkg.Scope().Lookup(e.Name).(*types.Var); ok {
				name := "glob_" + sanitize(o.Pkg().Path()+"."+o.Name())
				v.S.declFun(name, "() Int")
				v.havocPointee(Term{S: name, Sort: "Int", T: types.NewPointer(o.Type())}, st)
				return
			}
		}
		v.fail("modifies: unknown target %s", e.Name)
	case *EUnary:
		if e.Op == "*" {
			p := v.evalTerm(e.X, env)
			v.havocPointee(p, st)
			return
		}
	case *ESel:
		// T.f (whole field) or x.f (one object)
		if id, ok := e.X.(*EIdent); ok {
			if _, bound := env.vars[id.Name]; !bound {
				if t, _ := v.W.resolveType(id.Name, env.pkg); t != nil {
					v.havocFieldAll(t, e.Sel, env, st)
					return
				}
			}
		}
		if sel, ok := e.X.(*ESel); ok {
			if id, ok := sel.X.(*EIdent); ok {
				if _, bound := env.vars[id.Name]; !bound {
					if t, _ := v.W.resolveType(id.Name+"."+sel.Sel, env.pkg); t != nil {
						v.havocFieldAll(t, e.Sel, env, st)
						return
					}
				}
			}
		}
		if bp, ok := v.lvalueBase(e.X, env); ok {
			v.havocFieldAt(bp, e.Sel, env, st)
			return
		}
		xt := v.evalTerm(e.X, env)
		v.havocFieldAt(xt, e.Sel, env, st)
		return
	case *ECall:
		if id, ok := e.Fun.(*EIdent); ok {
			switch id.Name {
			case "elems":
				a := v.evalTerm(e.Args[0], env)
				sl := a.T.Underlying().(*types.Slice)
				k := v.elemKey(sl.Elem())
				h := v.heapGet(st, k)
				fresh := v.freshConst("elems", fmt.Sprintf("(Array Int %s)", v.S.SortOf(sl.Elem())))
				v.heapSet(st, k, fmt.Sprintf("(store %s (sarr %s) %s)", h, a.S, fresh))
				return
			case "mapOf":
				a := v.evalTerm(e.Args[0], env)
				m := a.T.Underlying().(*types.Map)
				d, vl, l := v.mapKeys(m)
				ks, vs := v.S.SortOf(m.Key()), v.S.SortOf(m.Elem())
				v.heapSet(st, d, fmt.Sprintf("(store %s %s %s)", v.heapGet(st, d), a.S, v.freshConst("mdom", fmt.Sprintf("(Array %s Bool)", ks))))
				v.heapSet(st, vl, fmt.Sprintf("(store %s %s %s)", v.heapGet(st, vl), a.S, v.freshConst("mval", fmt.Sprintf("(Array %s %s)", ks, vs))))
				nl := v.freshConst("mlen", "Int")
				v.asserts = append(v.asserts, fmt.Sprintf("(>= %s 0)", nl))
				v.heapSet(st, l, fmt.Sprintf("(store %s %s %s)", v.heapGet(st, l), a.S, nl))
				return
			case "chans":
				v.havocKey(st, v.regKey("CH:len", "(Array Int Int)"))
				return
			case "chanstate": // chanstate(): how full every channel is AND which channels are closed
				v.havocKey(st, v.regKey("CH:len", "(Array Int Int)"))
				v.havocKey(st, v.regKey("CH:closed", "(Array Int Bool)"))
				return
			case "allElems": // allElems("T"): contents of every slice of element type T
				t, _ := v.W.resolveType(e.Args[0].(*EStr).V, env.pkg)
				if t == nil {
					v.fail("allElems: cannot resolve %s", e.Args[0])
				}
				v.havocKey(st, v.elemKey(t))
				return
			case "allMaps": // allMaps("map[K]V"): contents of every map of that type
				t, _ := v.W.resolveType(e.Args[0].(*EStr).V, env.pkg)
				mt, ok := t.(*types.Map)
				if !ok {
					v.fail("allMaps: cannot resolve %s", e.Args[0])
				}
				d, vl, l := v.mapKeys(mt)
				v.havocKey(st, d)
				v.havocKey(st, vl)
				v.havocKey(st, l)
				return
			}
		}
	}
	v.fail("unsupported modifies target %s", x.String())
}

func (v *FnVC) havocPointee(p Term, st *State) {
	if p.T == nil {
		v.fail("modifies through untyped pointer")
	}
	el := deref(p.T)
	if s, ok := structOf(el); ok {
		for k := 0; k < s.NumFields(); k++ {
			key := v.fieldKey(el, s.Field(k))
			nv := v.havocVal("hv", s.Field(k).Type())
			v.heapSet(st, key, fmt.Sprintf("(store %s %s %s)", v.heapGet(st, key), p.S, nv.S))
		}
		return
	}
	key := v.cellKey(el)
	nv := v.havocVal("hv", el)
	v.heapSet(st, key, fmt.Sprintf("(store %s %s %s)", v.heapGet(st, key), p.S, nv.S))
}

func (v *FnVC) havocFieldAll(t types.Type, field string, env *Env, st *State) {
	if g := v.W.GhostField(t, field); g != nil {
		_, so := v.sortOfSpecType(g.Sort, env.pkg)
		v.havocKey(st, v.regKey("G:"+typeKey(t)+"."+field, fmt.Sprintf("(Array Int %s)", so)))
		return
	}
	s, ok := structOf(t)
	if !ok {
		v.fail("modifies %s.%s: not a struct", t, field)
	}
	for k := 0; k < s.NumFields(); k++ {
		if s.Field(k).Name() == field {
			v.havocKey(st, v.fieldKey(t, s.Field(k)))
			return
		}
	}
	v.fail("modifies: no field %s in %s", field, t)
}

func (v *FnVC) havocFieldAt(x Term, field string, env *Env, st *State) {
	if x.T == nil {
		v.fail("modifies .%s on untyped term", field)
	}
	base := deref(x.T)
	ref := x.S
	if x.Sort == "Iface" {
		ref = fmt.Sprintf("(ival %s)", x.S)
	}
	if g := v.W.GhostField(base, field); g != nil {
		gt, so := v.sortOfSpecType(g.Sort, env.pkg)
		key := v.regKey("G:"+typeKey(base)+"."+field, fmt.Sprintf("(Array Int %s)", so))
		nv := v.freshConst("hv", so)
		if gt != nil {
			v.assumeWF(Term{S: nv, Sort: so, T: gt})
		}
		v.heapSet(st, key, fmt.Sprintf("(store %s %s %s)", v.heapGet(st, key), ref, nv))
		return
	}
	s, ok := structOf(base)
	if !ok {
		v.fail("modifies .%s: %s is not a struct", field, base)
	}
	for k := 0; k < s.NumFields(); k++ {
		if s.Field(k).Name() == field {
			key := v.fieldKey(base, s.Field(k))
			nv := v.havocVal("hv", s.Field(k).Type())
			v.heapSet(st, key, fmt.Sprintf("(store %s %s %s)", v.heapGet(st, key), ref, nv.S))
			return
		}
	}
	v.fail("modifies: no field %s in %s", field, base)
}

// callModKeys: heap keys a call may modify (for loop havoc).
func (v *FnVC) callModKeys(c *ssa.CallCommon) (keys []string, all bool) {
	if b, ok := c.Value.(*ssa.Builtin); ok {
		switch b.Name() {
		case "append":
			sl := c.Args[0].Type().Underlying().(*types.Slice)
			return []string{v.elemKey(sl.Elem())}, false
		case "copy":
			if sl, ok := c.Args[0].Type().Underlying().(*types.Slice); ok {
				return []string{v.elemKey(sl.Elem())}, false
			}
		case "delete":
			m := c.Args[0].Type().Underlying().(*types.Map)
			d, vl, l := v.mapKeys(m)
			return []string{d, vl, l}, false
		case "close":
			return []string{v.regKey("CH:closed", "(Array Int Bool)")}, false
		}
		return nil, false
	}
	name, fn := v.calleeName(c)
	if mc, ok := c.Value.(*ssa.MakeClosure); ok && !c.IsInvoke() {
		fn = mc.Fn.(*ssa.Function)
		name = v.W.FuncQualName(fn)
	}
	if name != "" {
		if contract := v.W.ContractFor(name); contract != nil {
			if contract.ModifiesAll {
				return nil, true
			}
			for _, m := range contract.Modifies {
				ks := v.modKeysOf(m.E, contract, fn)
				if ks == nil {
					return nil, true
				}
				keys = append(keys, ks...)
			}
			return keys, false
		}
	}
	switch v.effectClass(name, fn, c) {
	case effNone:
		return v.ptrArgKeys(c), false
	}
	return nil, true
}

// modKeysOf maps a modifies target to heap keys syntactically (type-based).
func (v *FnVC) modKeysOf(x Expr, contract *FuncContract, fn *ssa.Function) []string {
	pkg := v.W.PkgTypes(contract.Pkg)
	typeOfIdent := func(name string) types.Type {
		if fn != nil {
			for _, p := range fn.Params {
				if p.Name() == name {
					return p.Type()
				}
			}
			for _, fvr := range fn.FreeVars {
				if "&"+fvr.Name() == name {
					return fvr.Type()
				}
				if fvr.Name() == name {
					return deref(fvr.Type()) // the captured variable itself
				}
			}
		}
		for _, p := range contract.Params {
			if p.Name == name {
				t, _ := v.W.resolveType(p.Type, pkg)
				return t
			}
		}
		return nil
	}
	var typeOf func(e Expr) types.Type
	typeOf = func(e Expr) types.Type {
		switch e := e.(type) {
		case *EIdent:
			return typeOfIdent(e.Name)
		case *ESel:
			bt := typeOf(e.X)
			if bt == nil {
				return nil
			}
			if g := v.W.GhostField(deref(bt), e.Sel); g != nil {
				t, _ := v.W.resolveType(g.Sort, pkg)
				return t
			}
			obj, _, _ := types.LookupFieldOrMethod(bt, true, pkg, e.Sel)
			if obj == nil {
				if n, ok := deref(bt).(*types.Named); ok && n.Obj().Pkg() != nil {
					obj, _, _ = types.LookupFieldOrMethod(bt, true, n.Obj().Pkg(), e.Sel)
				}
			}
			if f, ok := obj.(*types.Var); ok {
				return f.Type()
			}
		case *ECall:
			if id, ok := e.Fun.(*EIdent); ok && id.Name == "old" {
				return typeOf(e.Args[0])
			}
		}
		return nil
	}
	switch e := x.(type) {
	case *EIdent:
		if t := typeOfIdent("&" + e.Name); t != nil {
			return v.storeKeysOfType(deref(t))
		}
		if g := v.W.GhostVar(e.Name); g != nil {
			_, so := v.sortOfSpecType(g.Sort, pkg)
			return []string{v.regKey("GV:"+e.Name, so)}
		}
	case *EUnary:
		if t := typeOf(e.X); t != nil {
			return v.storeKeysOfType(deref(t))
		}
	case *ESel:
		var bt types.Type
		if id, ok := e.X.(*EIdent); ok && typeOfIdent(id.Name) == nil {
			bt, _ = v.W.resolveType(id.Name, pkg)
		} else if sel, ok := e.X.(*ESel); ok {
			if id, ok := sel.X.(*EIdent); ok && typeOfIdent(id.Name) == nil {
				bt, _ = v.W.resolveType(id.Name+"."+sel.Sel, pkg)
			}
		}
		if bt == nil {
			bt = typeOf(e.X)
		}
		if bt == nil {
			return nil
		}
		base := deref(bt)
		if g := v.W.GhostField(base, e.Sel); g != nil {
			_, so := v.sortOfSpecType(g.Sort, pkg)
			return []string{v.regKey("G:"+typeKey(base)+"."+e.Sel, fmt.Sprintf("(Array Int %s)", so))}
		}
		if s, ok := structOf(base); ok {
			for k := 0; k < s.NumFields(); k++ {
				if s.Field(k).Name() == e.Sel {
					return []string{v.fieldKey(base, s.Field(k))}
				}
			}
		}
	case *ECall:
		if id, ok := e.Fun.(*EIdent); ok {
			var t types.Type
			if len(e.Args) > 0 {
				t = typeOf(e.Args[0])
			}
			switch id.Name {
			case "elems":
				if t != nil {
					return []string{v.elemKey(t.Underlying().(*types.Slice).Elem())}
				}
			case "mapOf":
				if t != nil {
					d, vl, l := v.mapKeys(t.Underlying().(*types.Map))
					return []string{d, vl, l}
				}
			case "chans":
				return []string{v.regKey("CH:len", "(Array Int Int)")}
			case "chanstate":
				return []string{v.regKey("CH:len", "(Array Int Int)"), v.regKey("CH:closed", "(Array Int Bool)")}
			case "allElems":
				if tt, _ := v.W.resolveType(e.Args[0].(*EStr).V, pkg); tt != nil {
					return []string{v.elemKey(tt)}
				}
			case "allMaps":
				if tt, _ := v.W.resolveType(e.Args[0].(*EStr).V, pkg); tt != nil {
					if mt, ok := tt.(*types.Map); ok {
						d, vl, l := v.mapKeys(mt)
						return []string{d, vl, l}
					}
				}
			}
		}
	}
	return nil
}

func (v *FnVC) storeKeysOfType(el types.Type) []string {
	if s, ok := structOf(el); ok {
		var ks []string
		for i := 0; i < s.NumFields(); i++ {
			ks = append(ks, v.fieldKey(el, s.Field(i)))
		}
		return ks
	}
	return []string{v.cellKey(el)}
}

const (
	effNone = iota // no effect on tracked heap beyond pointer arguments
	effAll
)

// effectClass decides the effect of a callee without contract.
func (v *FnVC) effectClass(name string, fn *ssa.Function, c *ssa.CallCommon) int {
	if name != "" && v.W.IsEffectFree(name) {
		return effNone
	}
	inModule := func(path string) bool { return strings.HasPrefix(path, v.W.Module) }
	if fn != nil {
		if fn.Pkg != nil && inModule(fn.Pkg.Pkg.Path()) {
			if v.W.obviouslyPure(fn) {
				v.note("callee %s has no contract and is obviously pure (writes only its own locals, calls only pure code): result unknown, tracked state untouched", v.W.FuncDisplayName(fn))
				return effNone
			}
			return effAll
		}
		if fn.Pkg == nil && fn.Parent() != nil {
			return effAll
		}
		// external function: callbacks may run module code
		for _, a := range c.Args {
			if _, ok := a.Type().Underlying().(*types.Signature); ok {
				return effAll
			}
		}
		return effNone
	}
	// a function value produced by a call into a dependency (e.g. the CancelFunc of context.WithTimeout)
	if !c.IsInvoke() {
		var src ssa.Value = c.Value
		if ex, ok := src.(*ssa.Extract); ok {
			src = ex.Tuple
		}
		if call, ok := src.(*ssa.Call); ok {
			if sf := call.Common().StaticCallee(); sf != nil && sf.Pkg != nil && !inModule(sf.Pkg.Pkg.Path()) {
				return effNone
			}
		}
	}
	if c.IsInvoke() {
		if n, ok := types.Unalias(c.Value.Type()).(*types.Named); ok {
			if n.Obj().Pkg() == nil || !inModule(n.Obj().Pkg().Path()) {
				// method of an external interface (error, io.Reader, context.Context ...): dynamic receiver may be module code,
				// but such methods (Error, Read, Done ...) are assumed not to touch tracked state
				return effNone
			}
		}
		return effAll
	}
	return effAll
}

func (v *FnVC) ptrArgKeys(c *ssa.CallCommon) []string {
	var keys []string
	for _, a := range c.Args {
		if p, ok := a.Type().Underlying().(*types.Pointer); ok {
			keys = append(keys, v.storeKeysOfType(p.Elem())...)
		}
	}
	return keys
}

func (v *FnVC) unknownCall(ins ssa.Instruction, name string, fn *ssa.Function, c *ssa.CallCommon, args []Term) {
	st := v.cur
	display := name
	if display == "" {
		display = "dynamic call at " + v.posOf(ins.Pos())
	}
	switch v.effectClass(name, fn, c) {
	case effNone:
		v.assumedCallees[shortCallee(display)+" (no contract: result havocked, no effect on tracked state assumed)"] = true
		// pointer arguments: pointee havocked
		for k, a := range c.Args {
			if _, ok := a.Type().Underlying().(*types.Pointer); ok {
				l := v.locOf(a)
				_ = k
				v.havocAt(l, st)
			}
		}
	default:
		v.assumedCallees[shortCallee(display)+" (no contract: all tracked heap havocked)"] = true
		v.havocAll(st)
	}
}

// havocAt havocs the location (and for objects all fields).
func (v *FnVC) havocAt(l *Loc, st *State) {
	if l.Kind == LObj {
		v.havocPointee(Term{S: l.Ref, Sort: "Int", T: types.NewPointer(l.T)}, st)
		return
	}
	nv := v.havocVal("hv", l.T)
	v.store(st, l, nv)
}

func (v *FnVC) encodeBuiltin(ins ssa.Instruction, b *ssa.Builtin, c *ssa.CallCommon, res ssa.Value) {
	st := v.cur
	switch b.Name() {
	case "len":
		x := v.val(c.Args[0])
		env := &Env{v: v, st: st, old: v.entry}
		t := v.lenTerm(x, env)
		nt := v.setVal(res, t.S)
		v.asserts = append(v.asserts, fmt.Sprintf("(>= %s 0)", nt.S))
		if x.Sort == "Str" {
			v.asserts = append(v.asserts, v.strWF(x.S))
		}
	case "cap":
		x := v.val(c.Args[0])
		if x.Sort == "Slice" {
			v.setVal(res, fmt.Sprintf("(scap %s)", x.S))
		} else if _, isChan := c.Args[0].Type().Underlying().(*types.Chan); isChan {
			v.S.declFun("chan_cap", "(Int) Int")
			v.setVal(res, fmt.Sprintf("(ite (= %s 0) 0 (chan_cap %s))", x.S, x.S))
		} else {
			v.vals[res] = v.havocVal("cap", res.Type())
		}
	case "append":
		v.encodeAppend(ins, c, res)
	case "copy":
		dst := v.val(c.Args[0])
		if sl, ok := c.Args[0].Type().Underlying().(*types.Slice); ok {
			k := v.elemKey(sl.Elem())
			h := v.heapGet(st, k)
			fresh := v.freshConst("elems", fmt.Sprintf("(Array Int %s)", v.S.SortOf(sl.Elem())))
			v.heapSet(st, k, fmt.Sprintf("(store %s (sarr %s) %s)", h, dst.S, fresh))
			v.note("copy(): destination contents havocked in %s", v.fnName())
		}
		if res != nil {
			v.vals[res] = v.havocVal("copied", res.Type())
		}
	case "delete":
		m := c.Args[0].Type().Underlying().(*types.Map)
		mp := v.val(c.Args[0])
		k := v.val(c.Args[1])
		d, _, l := v.mapKeys(m)
		hd, hl := v.heapGet(st, d), v.heapGet(st, l)
		v.heapSet(st, l, fmt.Sprintf("(store %s %s (ite (select (select %s %s) %s) (- (select %s %s) 1) (select %s %s)))", hl, mp.S, hd, mp.S, k.S, hl, mp.S, hl, mp.S))
		v.heapSet(st, d, fmt.Sprintf("(store %s %s (store (select %s %s) %s false))", hd, mp.S, hd, mp.S, k.S))
	case "close":
		ch := v.val(c.Args[0])
		k := v.regKey("CH:closed", "(Array Int Bool)")
		h := v.heapGet(st, k)
		v.panicCheck("close", fmt.Sprintf("(and (not (= %s 0)) (not (select %s %s)))", ch.S, h, ch.S), "close of nil or closed channel", ins.Pos())
		v.heapSet(st, k, fmt.Sprintf("(store %s %s true)", h, ch.S))
	case "panic":
		if v.nopanic {
			v.oblige("nopanic-explicit", "false", "explicit panic is unreachable", ins.Pos())
		}
		v.narrow("false")
	case "recover":
		if res != nil {
			v.vals[res] = v.havocVal("recovered", res.Type())
		}
	case "print", "println":
	case "min", "max":
		x, y := v.val(c.Args[0]), v.val(c.Args[1])
		op := "<="
		if b.Name() == "max" {
			op = ">="
		}
		v.setVal(res, fmt.Sprintf("(ite (%s %s %s) %s %s)", op, x.S, y.S, x.S, y.S))
	case "ssa:wrapnilchk":
		v.vals[res] = v.val(c.Args[0])
	default:
		if res != nil {
			if tup, ok := res.Type().(*types.Tuple); ok {
				var rs []Term
				for k := 0; k < tup.Len(); k++ {
					rs = append(rs, v.havocVal("bi", tup.At(k).Type()))
				}
				v.tuples[res] = rs
			} else {
				v.vals[res] = v.havocVal("bi", res.Type())
			}
		}
		v.note("builtin %s havocked in %s", b.Name(), v.fnName())
	}
}

func (v *FnVC) encodeAppend(ins ssa.Instruction, c *ssa.CallCommon, res ssa.Value) {
	st := v.cur
	s := v.val(c.Args[0])
	t := v.val(c.Args[1])
	sl := c.Args[0].Type().Underlying().(*types.Slice)
	if t.Sort == "Str" {
		// append([]byte, string...)
		r := v.havocVal(res.Name(), res.Type())
		v.vals[res] = r
		v.asserts = append(v.asserts, fmt.Sprintf("(= (slen %s) (+ (slen %s) (len_s %s)))", r.S, s.S, t.S))
		k := v.elemKey(sl.Elem())
		v.havocKey(st, k)
		v.note("append(bytes, string...) contents havocked in %s", v.fnName())
		return
	}
	if why := appendAliasRisk(v.loops, ins, c); why != "" {
		v.oblige("append-alias", "false", "the fresh-backing-array model of append is faithful here: "+why, ins.Pos())
	}
	k := v.elemKey(sl.Elem())
	es := v.S.SortOf(sl.Elem())
	h := v.heapGet(st, k)
	r := st.alloc
	st.alloc = v.define("alloc", "Int", fmt.Sprintf("(+ %s 1)", r))
	nlen := v.define("applen", "Int", fmt.Sprintf("(+ (slen %s) (slen %s))", s.S, t.S))
	ncap := v.freshConst("appcap", "Int")
	v.asserts = append(v.asserts, fmt.Sprintf("(>= %s %s)", ncap, nlen))
	// new backing array content: prefix from s, suffix from t
	oldArr := fmt.Sprintf("(select %s (sarr %s))", h, s.S)
	var content string
	// append(s, x) with a single variadic element and s not a re-slice: content is the old content with x stored at len(s)
	if sl1, ok := c.Args[1].(*ssa.Slice); ok {
		if al, ok := sl1.X.(*ssa.Alloc); ok && al.Comment == "varargs" {
			if arr, ok := deref(al.Type()).Underlying().(*types.Array); ok && arr.Len() == 1 {
				if _, resliced := c.Args[0].(*ssa.Slice); !resliced {
					whole := v.load(st, v.locOf(al))
					elem := v.arrSelect(whole.S, arr, "0")
					v.heapSet(st, k, fmt.Sprintf("(store %s %s (store %s (slen %s) %s))", h, r, oldArr, s.S, elem))
					v.setVal(res, fmt.Sprintf("(mkSlice %s 0 %s %s)", r, nlen, ncap))
					return
				}
			}
		}
	}
	// single-element fast path: t has known length 1 (varargs)
	newArr := v.freshConst("apparr", fmt.Sprintf("(Array Int %s)", es))
	tArr := fmt.Sprintf("(select %s (sarr %s))", h, t.S)
	v.asserts = append(v.asserts, fmt.Sprintf("(=> (and (= (soff %s) 0) (= (slen %s) 1) (= (soff %s) 0)) (= %s (store %s (slen %s) (select %s 0))))", s.S, t.S, t.S, newArr, oldArr, s.S, tArr))
	v.asserts = append(v.asserts, fmt.Sprintf("(=> (= (slen %s) 0) (forall ((k Int)) (! (=> (and (<= 0 k) (< k (slen %s))) (= (select %s k) (select %s (+ (soff %s) k)))) :pattern ((select %s k)))))", t.S, s.S, newArr, oldArr, s.S, newArr))
	v.asserts = append(v.asserts, fmt.Sprintf("(=> (not (and (= (soff %s) 0) (= (slen %s) 1) (= (soff %s) 0))) (forall ((k Int)) (! (and (=> (and (<= 0 k) (< k (slen %s))) (= (select %s k) (select %s (+ (soff %s) k)))) (=> (and (<= (slen %s) k) (< k %s)) (= (select %s k) (select %s (+ (soff %s) (- k (slen %s))))))) :pattern ((select %s k)))))",
		s.S, t.S, t.S, s.S, newArr, oldArr, s.S, s.S, nlen, newArr, tArr, t.S, s.S, newArr))
	content = newArr
	v.heapSet(st, k, fmt.Sprintf("(store %s %s %s)", h, r, content))
	v.setVal(res, fmt.Sprintf("(mkSlice %s 0 %s %s)", r, nlen, ncap))
	v.note("append: result always gets a fresh backing array (aliasing through spare capacity not modelled)")
}

func (v *FnVC) encodeReturn(i *ssa.Return) {
	var rs []Term
	for _, r := range i.Results {
		rs = append(rs, v.val(r))
	}
	v.rets = append(v.rets, retSite{guard: v.reach[v.curBlock], results: rs, st: v.cur, pos: i.Pos(), blk: v.curBlock, ins: i})
}

// atExit merges all return sites and checks postconditions, type invariants and the frame.
func (v *FnVC) atExit() {
	if len(v.rets) == 0 {
		return
	}
	// virtual exit block
	var conds []string
	var parts []mergePart
	for _, r := range v.rets {
		conds = append(conds, r.guard)
		parts = append(parts, mergePart{cond: r.guard, st: r.st})
	}
	exitReach := conds[0]
	if len(conds) > 1 {
		exitReach = v.define("reach_exit", "Bool", "(or "+strings.Join(conds, " ")+")")
	}
	st := v.mergeStates(parts)
	sig := v.Fn.Signature
	n := sig.Results().Len()
	results := make([]Term, n)
	for k := 0; k < n; k++ {
		t := v.rets[len(v.rets)-1].results[k].S
		for j := len(v.rets) - 2; j >= 0; j-- {
			t = fmt.Sprintf("(ite %s %s %s)", v.rets[j].guard, v.rets[j].results[k].S, t)
		}
		rt := sig.Results().At(k).Type()
		so := v.S.SortOf(rt)
		results[k] = Term{S: v.define("result", so, t), Sort: so, T: rt}
	}
	v.exitResults = results
	v.exitState = st
	// pseudo block for obligations
	exitBlock := &ssa.BasicBlock{}
	v.reach[exitBlock] = exitReach
	v.curBlock = exitBlock
	v.cur = st
	if v.C == nil {
		return
	}
	env := v.baseEnv()
	env.st = st
	env.lookup = func(name string) (Term, bool) { return v.localAtExit(name, st) }
	env.vars["$allocPre"] = intT(v.entry.alloc)
	rn := resultNames(nil, sig)
	for k := range results {
		env.vars[rn[k]] = results[k]
		env.vars[fmt.Sprintf("result%d", k)] = results[k]
	}
	if n == 1 {
		env.vars["result"] = results[0]
	}
	pos := v.Fn.Pos()
	if cov := v.oblige("covers-exit", "false", "some return of the function is reachable under the contract's assumptions (vacuity guard)", pos); cov != nil {
		cov.IsCover = true
	}
	for k, c := range v.C.Ensures {
		if c.Kind == "trusted-ensures" {
			v.assumedCallees[fmt.Sprintf("%s: postcondition assumed at call sites, NOT proved for the body: %s", v.fnName(), c.Text)] = true
			continue
		}
		if c.Kind == "defines" {
			// names the function's result by uninterpreted spec functions: assumed at call sites (purity assumption), nothing to check here
			v.assumedCallees[fmt.Sprintf("%s is a pure function of its arguments (defines: %s)", v.fnName(), c.Text)] = true
			continue
		}
		if v.C.SplitReturns && len(v.rets) > 1 {
			// one obligation per return statement, evaluated in that return's own state (no merge of the paths)
			order := make([]int, len(v.rets))
			for j := range order {
				order[j] = j
			}
			sort.Slice(order, func(a, b int) bool { return v.rets[order[a]].pos < v.rets[order[b]].pos })
			for ord, j := range order {
				r := v.rets[j]
				rb := &ssa.BasicBlock{}
				v.reach[rb] = r.guard
				v.curBlock = rb
				renv := v.baseEnv()
				renv.st = r.st
				blk, ins := r.blk, r.ins
				renv.lookupAt = func(name string, st *State) (Term, bool) { return v.localByNameAt(name, blk, ins, st) }
				renv.vars["$allocPre"] = intT(v.entry.alloc)
				for kk := range r.results {
					t := r.results[kk]
					t.T = sig.Results().At(kk).Type()
					renv.vars[rn[kk]] = t
					renv.vars[fmt.Sprintf("result%d", kk)] = t
				}
				if n == 1 {
					renv.vars["result"] = renv.vars["result0"]
				}
				f := v.evalBool(c.E, renv)
				o := v.oblige("ensures", f, c.Text, r.pos)
				o.Name = fmt.Sprintf("%s/ensures#%d.ret%d", v.fnName(), k, ord)
			}
			v.curBlock = exitBlock
			continue
		}
		f := v.evalBool(c.E, env)
		o := v.oblige("ensures", f, c.Text, pos)
		o.Name = fmt.Sprintf("%s/ensures#%d", v.fnName(), k)
	}
	for _, c := range v.C.Covers {
		f := v.evalBool(c.E, env)
		o := v.oblige("covers", "(not "+f+")", "reachable: "+c.Text, pos)
		o.IsCover = true
	}
	v.checkFrame(st, env, pos)
}

// checkFrame: nothing outside the modifies clause changes (for pre-existing objects).
func (v *FnVC) checkFrame(st *State, env *Env, pos token.Pos) {
	if v.C.ModifiesAll || v.C.Trusted {
		return
	}
	if v.C.NoFrame {
		v.assumedCallees[fmt.Sprintf("%s: frame (modifies clause) assumed at call sites, NOT proved for the body", v.fnName())] = true
		return
	}
	if st.epoch != v.entry.epoch {
		v.oblige("frame", "false", "frame: function calls code with unknown effects (all tracked heap havocked); give the callee a contract or list it as effect-free", pos)
		return
	}
	// allowed locations per key
	allowedAll := map[string]bool{}
	allowedRefs := map[string][]string{}
	eenv := *env
	eenv.st = v.entry
	for _, m := range v.C.Modifies {
		v.frameTargets(m.E, &eenv, allowedAll, allowedRefs)
	}
	var keys []string
	for k := range st.heap {
		keys = append(keys, k)
	}
	sort.Strings(keys)
	for _, k := range keys {
		if strings.HasPrefix(k, "IT:") || strings.HasPrefix(k, "L:") {
			continue
		}
		if allowedAll[k] {
			continue
		}
		h0 := v.heapGet(v.entry, k)
		h1 := st.heap[k]
		if h0 == h1 {
			continue
		}
		so := v.heapSorts[k]
		var f string
		if strings.HasPrefix(so, "(Array Int ") {
			var excl []string
			for _, r := range allowedRefs[k] {
				excl = append(excl, fmt.Sprintf("(not (= r %s))", r))
			}
			cond := fmt.Sprintf("(and (> r 0) (< r %s) %s)", v.entry.alloc, strings.Join(excl, " "))
			f = fmt.Sprintf("(forall ((r Int)) (=> %s (= (select %s r) (select %s r))))", cond, h1, h0)
		} else {
			f = fmt.Sprintf("(= %s %s)", h1, h0)
		}
		o := v.oblige("frame", f, "frame: "+k+" of pre-existing objects unchanged except as listed in modifies", pos)
		o.Name = fmt.Sprintf("%s/frame:%s", v.fnName(), k)
	}
}

func (v *FnVC) frameTargets(x Expr, env *Env, all map[string]bool, refs map[string][]string) {
	addField := func(base types.Type, field, ref string) {
		if g := v.W.GhostField(base, field); g != nil {
			_, so := v.sortOfSpecType(g.Sort, env.pkg)
			k := v.regKey("G:"+typeKey(base)+"."+field, fmt.Sprintf("(Array Int %s)", so))
			if ref == "" {
				all[k] = true
			} else {
				refs[k] = append(refs[k], ref)
			}
			return
		}
		if s, ok := structOf(base); ok {
			for i := 0; i < s.NumFields(); i++ {
				if s.Field(i).Name() == field {
					k := v.fieldKey(base, s.Field(i))
					if ref == "" {
						all[k] = true
					} else {
						refs[k] = append(refs[k], ref)
					}
					return
				}
			}
		}
		v.fail("modifies: no field %s in %s", field, base)
	}
	pointee := func(p Term) {
		el := deref(p.T)
		for _, k := range v.storeKeysOfType(el) {
			refs[k] = append(refs[k], p.S)
		}
	}
	switch e := x.(type) {
	case *EIdent:
		if p, ok := env.vars["&"+e.Name]; ok {
			pointee(p)
			return
		}
		if g := v.W.GhostVar(e.Name); g != nil {
			_, so := v.sortOfSpecType(g.Sort, env.pkg)
			all[v.regKey("GV:"+e.Name, so)] = true
			return
		}
		if env.pkg != nil {
			if o, ok := env.pkg.Scope().Lookup(e.Name).(*types.Var); ok {
				name := "glob_" + sanitize(o.Pkg().Path()+"."+o.Name())
				v.S.declFun(name, "() Int")
				pointee(Term{S: name, Sort: "Int", T: types.NewPointer(o.Type())})
				return
			}
		}
	case *EUnary:
		if e.Op == "*" {
			pointee(v.evalTerm(e.X, env))
			return
		}
	case *ESel:
		if id, ok := e.X.(*EIdent); ok {
			if _, bound := env.vars[id.Name]; !bound {
				if t, _ := v.W.resolveType(id.Name, env.pkg); t != nil {
					addField(t, e.Sel, "")
					return
				}
			}
		}
		if sel, ok := e.X.(*ESel); ok {
			if id, ok := sel.X.(*EIdent); ok {
				if _, bound := env.vars[id.Name]; !bound {
					if t, _ := v.W.resolveType(id.Name+"."+sel.Sel, env.pkg); t != nil {
						addField(t, e.Sel, "")
						return
					}
				}
			}
		}
		if bp, ok := v.lvalueBase(e.X, env); ok {
			addField(deref(bp.T), e.Sel, bp.S)
			return
		}
		xt := v.evalTerm(e.X, env)
		ref := xt.S
		if xt.Sort == "Iface" {
			ref = fmt.Sprintf("(ival %s)", xt.S)
		}
		addField(deref(xt.T), e.Sel, ref)
		return
	case *ECall:
		if id, ok := e.Fun.(*EIdent); ok {
			switch id.Name {
			case "elems":
				a := v.evalTerm(e.Args[0], env)
				k := v.elemKey(a.T.Underlying().(*types.Slice).Elem())
				refs[k] = append(refs[k], fmt.Sprintf("(sarr %s)", a.S))
				return
			case "mapOf":
				a := v.evalTerm(e.Args[0], env)
				d, vl, l := v.mapKeys(a.T.Underlying().(*types.Map))
				for _, k := range []string{d, vl, l} {
					refs[k] = append(refs[k], a.S)
				}
				return
			case "chans", "chanstate":
				all[v.regKey("CH:len", "(Array Int Int)")] = true
				all[v.regKey("CH:closed", "(Array Int Bool)")] = true
				return
			case "allElems":
				if tt, _ := v.W.resolveType(e.Args[0].(*EStr).V, env.pkg); tt != nil {
					all[v.elemKey(tt)] = true
					return
				}
			case "allMaps":
				if tt, _ := v.W.resolveType(e.Args[0].(*EStr).V, env.pkg); tt != nil {
					if mt, ok := tt.(*types.Map); ok {
						d, vl, l := v.mapKeys(mt)
						all[d], all[vl], all[l] = true, true, true
						return
					}
				}
			}
		}
	}
	v.fail("unsupported modifies target %s", x.String())
}

// localAtExit resolves a source-level local in a postcondition: the variable must be bound in a block that
// dominates every return (typically a value computed at the top of the function).
func (v *FnVC) localAtExit(name string, st *State) (Term, bool) {
	if t, ok := v.cellVar(name, st); ok {
		return t, true
	}
	var retBlocks []*ssa.BasicBlock
	for _, b := range v.Fn.Blocks {
		if len(b.Instrs) > 0 {
			if _, ok := b.Instrs[len(b.Instrs)-1].(*ssa.Return); ok {
				if _, reached := v.reach[b]; reached {
					retBlocks = append(retBlocks, b)
				}
			}
		}
	}
	var best ssa.Value
	var bestAddr bool
	var bestBlock *ssa.BasicBlock
	for _, b := range v.Fn.Blocks {
		domAll := true
		for _, r := range retBlocks {
			if !b.Dominates(r) {
				domAll = false
			}
		}
		if !domAll {
			continue
		}
		for _, ins := range b.Instrs {
			d, ok := ins.(*ssa.DebugRef)
			if !ok || identName(d) != name {
				continue
			}
			if bestBlock == nil || bestBlock.Dominates(b) {
				best, bestAddr, bestBlock = d.X, d.IsAddr, b
			}
		}
	}
	if best == nil {
		return Term{}, false
	}
	if bestAddr {
		return v.load(st, v.locOf(best)), true
	}
	return v.val(best), true
}

// checkCallAsserts: assertions of the enclosing function's contract attached to calls of a named callee.
func (v *FnVC) checkCallAsserts(ins ssa.Instruction, name string, fn *ssa.Function, contract *FuncContract, sig *types.Signature, args []Term) {
	if v.C == nil || len(v.C.CallAsserts) == 0 || name == "" {
		return
	}
	for _, ca := range v.C.CallAsserts {
		cf := v.W.Files[v.C.Pkg]
		if cf == nil {
			continue
		}
		if v.W.canonName(ca.Callee, cf, v.Fn.Pkg.Pkg) != name {
			continue
		}
		if ca.Ordinal >= 0 && v.callOrdinal(ins, name) != ca.Ordinal {
			continue
		}
		env := v.baseEnv()
		env.cur = true
		blk := v.curBlock
		st := v.cur
		env.lookup = func(n string) (Term, bool) { return v.localByNameAt(n, blk, ins, st) }
		var names []string
		if contract != nil {
			names = v.paramNames(contract, fn, sig, len(args) > sig.Params().Len())
		} else {
			names = v.paramNames(&FuncContract{}, fn, sig, len(args) > sig.Params().Len())
		}
		for k, n := range names {
			if k < len(args) {
				env.vars["$"+n] = args[k]
			}
		}
		f := v.evalBool(ca.C.E, env)
		v.oblige("assert-call:"+shortCallee(name), f, fmt.Sprintf("at every call of %s: %s", shortCallee(name), ca.C.Text), ins.Pos())
	}
}

// callOrdinal: index of the call instruction among the calls of the same callee in this function, in source order.
func (v *FnVC) callOrdinal(ins ssa.Instruction, name string) int {
	var poss []int
	for _, b := range v.Fn.Blocks {
		for _, i := range b.Instrs {
			ci, ok := i.(ssa.CallInstruction)
			if !ok {
				continue
			}
			n, _ := v.calleeName(ci.Common())
			if n == name {
				poss = append(poss, int(i.Pos()))
			}
		}
	}
	sort.Ints(poss)
	for k, p := range poss {
		if p == int(ins.Pos()) {
			return k
		}
	}
	return -1
}

// tryEvalBool evaluates a clause; ok=false when it refers to an identifier that is not in scope here.
func (v *FnVC) tryEvalBool(e Expr, env *Env) (f string, ok bool) {
	defer func() {
		if r := recover(); r != nil {
			if ve, isVE := r.(vcError); isVE && strings.Contains(string(ve), "unknown identifier") {
				ok = false
				return
			}
			panic(r)
		}
	}()
	return v.evalBool(e, env), true
}

// callModRefs: for a call to a callee with a contract, the object (argument value) each modified key is confined to,
// when the modifies target has the shape <param>.<field>; keys absent from the map may be modified on any object.
func (v *FnVC) callModRefs(c *ssa.CallCommon) map[string]ssa.Value {
	out := map[string]ssa.Value{}
	name, fn := v.calleeName(c)
	var closure *ssa.MakeClosure
	if mc, ok := c.Value.(*ssa.MakeClosure); ok && !c.IsInvoke() {
		closure = mc
		fn = mc.Fn.(*ssa.Function)
		name = v.W.FuncQualName(fn)
	}
	if name == "" {
		return out
	}
	contract := v.W.ContractFor(name)
	if contract == nil {
		return out
	}
	args := v.callArgs(c)
	names := v.paramNames(contract, fn, c.Signature(), len(args) > c.Signature().Params().Len())
	conflict := map[string]bool{}
	for _, m := range contract.Modifies {
		sel, ok := m.E.(*ESel)
		if !ok {
			continue
		}
		id, ok := sel.X.(*EIdent)
		if !ok {
			continue
		}
		var obj ssa.Value
		for k, n := range names {
			if n == id.Name && k < len(args) {
				obj = args[k]
			}
		}
		if obj == nil && closure != nil {
			// captured struct variable: the object is the variable's storage (bound by address)
			cf := closure.Fn.(*ssa.Function)
			for k, fv := range cf.FreeVars {
				if fv.Name() == id.Name && k < len(closure.Bindings) {
					if _, isS := structOf(deref(closure.Bindings[k].Type())); isS {
						obj = closure.Bindings[k]
					}
				}
			}
		}
		if obj == nil && closure != nil {
			continue // captured variable: a cell, not tracked here
		}
		if obj == nil {
			continue
		}
		for _, k := range v.modKeysOf(m.E, contract, fn) {
			if prev, dup := out[k]; dup && prev != obj {
				conflict[k] = true
			}
			out[k] = obj
		}
	}
	for k := range conflict {
		delete(out, k)
	}
	return out
}

// encodeOnceDo models sync.Once.Do(f) for a closure literal f: the closure runs (its contract is applied) iff the
// Once has not fired yet; afterwards it has fired. Ghost field: sync.Once.done (declared in prelude/sync.spec).
func (v *FnVC) encodeOnceDo(ins ssa.Instruction, once ssa.Value, mc *ssa.MakeClosure) {
	o := v.val(once)
	key := v.regKey("G:sync_Once.done", "(Array Int Bool)")
	done := v.define("oncedone", "Bool", fmt.Sprintf("(select %s %s)", v.heapGet(v.cur, key), o.S))
	before := v.cur
	after := before.clone()
	v.cur = after
	saveReach := v.reach[v.curBlock]
	v.reach[v.curBlock] = v.define("oncereach", "Bool", fmt.Sprintf("(and %s (not %s))", saveReach, done))
	cc := &ssa.CallCommon{Value: mc}
	v.encodeCall(ins, cc, nil)
	ranReach := v.reach[v.curBlock]
	// executions in which the closure ran and completed, or did not run at all
	v.reach[v.curBlock] = v.define("reach_n", "Bool", fmt.Sprintf("(or (and %s %s) %s)", saveReach, done, ranReach))
	v.cur = v.mergeStates([]mergePart{{cond: fmt.Sprintf("(not %s)", done), st: after}, {cond: "true", st: before}})
	v.heapSet(v.cur, key, fmt.Sprintf("(store %s %s true)", v.heapGet(v.cur, key), o.S))
}

// lvalueBase: for modifies targets x.f where x is a captured variable of struct type, the pointer to that struct.
func (v *FnVC) lvalueBase(x Expr, env *Env) (Term, bool) {
	if id, ok := x.(*EIdent); ok {
		if p, ok := env.vars["&"+id.Name]; ok && p.T != nil {
			if _, isS := structOf(deref(p.T)); isS {
				return p, true
			}
		}
		if _, bound := env.vars[id.Name]; !bound && v.Fn != nil {
			if p, ok := v.addrOfLocal(id.Name); ok && p.T != nil {
				if _, isS := structOf(deref(p.T)); isS {
					return p, true
				}
			}
		}
	}
	return Term{}, false
}

// checkFunArgs: a closure (or named function) passed for a function-typed parameter p of a callee that declares a
// contract "<callee>#p$call" for calls through p must itself be under a contract that subsumes it. Subsumption is
// checked syntactically: every ensures clause of the $call contract occurs among the closure's ensures clauses, the
// closure requires nothing beyond what the $call contract requires, and modifies nothing beyond what it lists.
func (v *FnVC) checkFunArgs(ins ssa.Instruction, fn *ssa.Function, args []ssa.Value) {
	if fn == nil || v.C == nil || v.C.File == "(literal scan)" {
		return
	}
	norm := func(s string) string { return strings.Join(strings.Fields(s), " ") }
	for k, a := range args {
		if k >= len(fn.Params) {
			break
		}
		if _, isF := fn.Params[k].Type().Underlying().(*types.Signature); !isF {
			continue
		}
		cc := v.W.ContractFor(fmt.Sprintf("%s#%s$call", fn.String(), fn.Params[k].Name()))
		if cc == nil {
			continue
		}
		var af *ssa.Function
		switch x := a.(type) {
		case *ssa.MakeClosure:
			af = x.Fn.(*ssa.Function)
		case *ssa.Function:
			af = x
		}
		kind := fmt.Sprintf("funarg:%s#%s", shortCallee(fn.String()), fn.Params[k].Name())
		if af == nil {
			v.oblige(kind, "false", "function value passed for a parameter with a $call contract is not a closure literal or named function", ins.Pos())
			continue
		}
		ac := v.W.ContractFor(af.String())
		if ac == nil {
			v.oblige(kind, "false", fmt.Sprintf("%s is passed for %s but has no contract", shortCallee(af.String()), fn.Params[k].Name()), ins.Pos())
			continue
		}
		has := func(cs []*Clause, text string) bool {
			for _, c := range cs {
				if norm(c.Text) == norm(text) && c.Kind != "trusted-ensures" {
					return true
				}
			}
			return false
		}
		ok := true
		why := ""
		for _, c := range cc.Ensures {
			if !has(ac.Ensures, c.Text) {
				ok, why = false, "missing ensures: "+c.Text
			}
		}
		for _, c := range ac.Requires {
			if !has(cc.Requires, c.Text) {
				ok, why = false, "extra requires: "+c.Text
			}
		}
		if ac.ModifiesAll && !cc.ModifiesAll {
			ok, why = false, "modifies * not allowed by the $call contract"
		}
		for _, c := range ac.Modifies {
			if !has(cc.Modifies, c.Text) && !cc.ModifiesAll {
				ok, why = false, "extra modifies: "+c.Text
			}
		}
		form := "true"
		if !ok {
			form = "false"
		}
		v.oblige(kind, form, fmt.Sprintf("contract of %s subsumes the $call contract of parameter %s of %s %s", shortCallee(af.String()), fn.Params[k].Name(), shortCallee(fn.String()), why), ins.Pos())
	}
}

// recordLabels: "label L before <callee> [#k]" names the state immediately before a call; at(L, e) evaluates e there and
// passed(L) is the condition that the call was reached.
func (v *FnVC) recordLabels(ins ssa.Instruction, name string) {
	if v.C == nil || len(v.C.Labels) == 0 || name == "" {
		return
	}
	cf := v.W.Files[v.C.Pkg]
	if cf == nil {
		return
	}
	for _, lb := range v.C.Labels {
		if v.W.canonName(lb.Callee, cf, v.Fn.Pkg.Pkg) != name {
			continue
		}
		if lb.Ordinal >= 0 && v.callOrdinal(ins, name) != lb.Ordinal {
			continue
		}
		if v.labelStates == nil {
			v.labelStates = map[string]*State{}
			v.labelGuards = map[string]string{}
			v.labelSites = map[string][2]interface{}{}
		}
		if _, dup := v.labelStates[lb.C.Text]; dup {
			v.fail("label %s matches more than one call (give an ordinal)", lb.C.Text)
		}
		v.labelStates[lb.C.Text] = v.cur.clone()
		v.labelGuards[lb.C.Text] = v.reach[v.curBlock]
		v.labelSites[lb.C.Text] = [2]interface{}{v.curBlock, ins}
	}
}
