package main

// Contract files: //@ lines -> structured contracts; expression parser for the contract language.

import (
	"fmt"
	"os"
	"strconv"
	"strings"
	"unicode"
)

// ---------- expression AST ----------

type Expr interface{ String() string }

type (
	EIdent struct{ Name string }
	EInt   struct{ V string }
	EStr   struct{ V string }
	EBool  struct{ V bool }
	EUnary struct {
		Op string
		X  Expr
	}
	EBinary struct {
		Op   string
		X, Y Expr
	}
	ECall struct {
		Fun  Expr
		Args []Expr
	}
	ESel struct {
		X   Expr
		Sel string
	}
	EIndex struct{ X, I Expr }
	ESlice struct{ X, Lo, Hi Expr }
	ECond  struct{ C, A, B Expr }
	EQuant struct {
		Forall bool
		Vars   []QVar
		Body   Expr
	}
)

type QVar struct{ Name, Type string }

func (e *EIdent) String() string  { return e.Name }
func (e *EInt) String() string    { return e.V }
func (e *EStr) String() string    { return strconv.Quote(e.V) }
func (e *EBool) String() string   { return fmt.Sprint(e.V) }
func (e *EUnary) String() string  { return e.Op + e.X.String() }
func (e *EBinary) String() string { return "(" + e.X.String() + " " + e.Op + " " + e.Y.String() + ")" }
func (e *ECall) String() string {
	var a []string
	for _, x := range e.Args {
		a = append(a, x.String())
	}
	return e.Fun.String() + "(" + strings.Join(a, ", ") + ")"
}
func (e *ESel) String() string   { return e.X.String() + "." + e.Sel }
func (e *EIndex) String() string { return e.X.String() + "[" + e.I.String() + "]" }
func (e *ESlice) String() string {
	lo, hi := "", ""
	if e.Lo != nil {
		lo = e.Lo.String()
	}
	if e.Hi != nil {
		hi = e.Hi.String()
	}
	return e.X.String() + "[" + lo + ":" + hi + "]"
}
func (e *ECond) String() string { return "(" + e.C.String() + " ? " + e.A.String() + " : " + e.B.String() + ")" }
func (e *EQuant) String() string {
	q := "exists"
	if e.Forall {
		q = "forall"
	}
	var vs []string
	for _, v := range e.Vars {
		vs = append(vs, v.Name+" "+v.Type)
	}
	return "(" + q + " " + strings.Join(vs, ", ") + " :: " + e.Body.String() + ")"
}

// ---------- lexer ----------

type tok struct {
	k string // "id","int","str","op","eof"
	v string
}

func lexExpr(s string) ([]tok, error) {
	var out []tok
	i := 0
	ops := []string{"<==>", "==>", "::", "==", "!=", "<=", ">=", "&&", "||", "<<", ">>", "+", "-", "*", "/", "%", "<", ">", "!", "(", ")", "[", "]", ",", ".", "?", ":", "&", "|", "{", "}"}
	for i < len(s) {
		c := s[i]
		if c == ' ' || c == '\t' || c == '\n' {
			i++
			continue
		}
		if c == '"' {
			j := i + 1
			for j < len(s) && s[j] != '"' {
				if s[j] == '\\' {
					j++
				}
				j++
			}
			if j >= len(s) {
				return nil, fmt.Errorf("unterminated string in %q", s)
			}
			v, err := strconv.Unquote(s[i : j+1])
			if err != nil {
				return nil, err
			}
			out = append(out, tok{"str", v})
			i = j + 1
			continue
		}
		if c == '\'' {
			j := i + 1
			for j < len(s) && s[j] != '\'' {
				if s[j] == '\\' {
					j++
				}
				j++
			}
			r, _, _, err := strconv.UnquoteChar(s[i+1:j], '\'')
			if err != nil {
				return nil, err
			}
			out = append(out, tok{"int", strconv.Itoa(int(r))})
			i = j + 1
			continue
		}
		if unicode.IsDigit(rune(c)) {
			j := i
			for j < len(s) && (unicode.IsDigit(rune(s[j])) || s[j] == 'x' || (s[j] >= 'a' && s[j] <= 'f') || (s[j] >= 'A' && s[j] <= 'F')) {
				j++
			}
			n, err := strconv.ParseInt(s[i:j], 0, 64)
			if err != nil {
				return nil, err
			}
			out = append(out, tok{"int", strconv.FormatInt(n, 10)})
			i = j
			continue
		}
		if unicode.IsLetter(rune(c)) || c == '_' || c == '$' {
			j := i
			for j < len(s) && (unicode.IsLetter(rune(s[j])) || unicode.IsDigit(rune(s[j])) || s[j] == '_' || s[j] == '$') {
				j++
			}
			out = append(out, tok{"id", s[i:j]})
			i = j
			continue
		}
		matched := false
		for _, op := range ops {
			if strings.HasPrefix(s[i:], op) {
				out = append(out, tok{"op", op})
				i += len(op)
				matched = true
				break
			}
		}
		if !matched {
			return nil, fmt.Errorf("bad character %q in %q", c, s)
		}
	}
	out = append(out, tok{"eof", ""})
	return out, nil
}

// ---------- parser ----------

type eparser struct {
	toks []tok
	p    int
	src  string
}

func ParseExpr(s string) (e Expr, err error) {
	toks, err := lexExpr(s)
	if err != nil {
		return nil, err
	}
	p := &eparser{toks: toks, src: s}
	defer func() {
		if r := recover(); r != nil {
			err = fmt.Errorf("parse error in %q: %v", s, r)
		}
	}()
	e = p.parseImpl()
	if p.peek().k != "eof" {
		panic(fmt.Sprintf("unexpected %q", p.peek().v))
	}
	return e, nil
}

func (p *eparser) peek() tok { return p.toks[p.p] }
func (p *eparser) next() tok { t := p.toks[p.p]; p.p++; return t }
func (p *eparser) isOp(v string) bool {
	t := p.peek()
	return t.k == "op" && t.v == v
}
func (p *eparser) expectOp(v string) {
	if !p.isOp(v) {
		panic(fmt.Sprintf("expected %q got %q", v, p.peek().v))
	}
	p.next()
}

// impl: quantifiers and <==>, ==> (lowest precedence), then ?:
func (p *eparser) parseImpl() Expr {
	if t := p.peek(); t.k == "id" && (t.v == "forall" || t.v == "exists") {
		p.next()
		q := &EQuant{Forall: t.v == "forall"}
		for {
			name := p.next()
			if name.k != "id" {
				panic("quantifier variable expected")
			}
			// type: tokens until ',' or '::'
			var ty []string
			depth := 0
			for depth > 0 || (!p.isOp(",") && !p.isOp("::")) {
				if p.peek().k == "eof" {
					panic("'::' expected")
				}
				if p.isOp("[") {
					depth++
				}
				if p.isOp("]") {
					depth--
				}
				ty = append(ty, p.next().v)
			}
			q.Vars = append(q.Vars, QVar{name.v, strings.Join(ty, "")})
			if p.isOp(",") {
				p.next()
				continue
			}
			p.expectOp("::")
			break
		}
		q.Body = p.parseImpl()
		return q
	}
	x := p.parseCond()
	if p.isOp("==>") {
		p.next()
		y := p.parseImpl()
		return &EBinary{"==>", x, y}
	}
	if p.isOp("<==>") {
		p.next()
		y := p.parseImpl()
		return &EBinary{"<==>", x, y}
	}
	return x
}

func (p *eparser) parseCond() Expr {
	c := p.parseBin(1)
	if p.isOp("?") {
		p.next()
		a := p.parseCond()
		p.expectOp(":")
		b := p.parseCond()
		return &ECond{c, a, b}
	}
	return c
}

var binPrec = map[string]int{"||": 1, "&&": 2, "==": 3, "!=": 3, "<": 3, "<=": 3, ">": 3, ">=": 3, "+": 4, "-": 4, "|": 4, "*": 5, "/": 5, "%": 5, "&": 5}

func (p *eparser) parseBin(min int) Expr {
	x := p.parseUnary()
	for {
		t := p.peek()
		if t.k != "op" {
			return x
		}
		pr, ok := binPrec[t.v]
		if !ok || pr < min {
			return x
		}
		p.next()
		y := p.parseBin(pr + 1)
		x = &EBinary{t.v, x, y}
	}
}

func (p *eparser) parseUnary() Expr {
	if p.isOp("!") {
		p.next()
		return &EUnary{"!", p.parseUnary()}
	}
	if p.isOp("-") {
		p.next()
		return &EUnary{"-", p.parseUnary()}
	}
	if p.isOp("*") {
		p.next()
		return &EUnary{"*", p.parseUnary()}
	}
	if p.isOp("&") {
		p.next()
		return &EUnary{"&", p.parseUnary()}
	}
	return p.parsePostfix()
}

func (p *eparser) parsePostfix() Expr {
	x := p.parsePrimary()
	for {
		switch {
		case p.isOp("."):
			p.next()
			t := p.next()
			if t.k == "op" && t.v == "(" { // type assertion x.(T): T as token string until ')'
				var ty []string
				depth := 1
				for {
					n := p.next()
					if n.k == "eof" {
						panic("')' expected")
					}
					if n.k == "op" && n.v == "(" {
						depth++
					}
					if n.k == "op" && n.v == ")" {
						depth--
						if depth == 0 {
							break
						}
					}
					ty = append(ty, n.v)
				}
				x = &ECall{Fun: &EIdent{"$assert"}, Args: []Expr{x, &EStr{strings.Join(ty, "")}}}
				continue
			}
			if t.k != "id" {
				panic("selector expected")
			}
			x = &ESel{x, t.v}
		case p.isOp("("):
			p.next()
			var args []Expr
			for !p.isOp(")") {
				args = append(args, p.parseImpl())
				if p.isOp(",") {
					p.next()
				}
			}
			p.expectOp(")")
			x = &ECall{x, args}
		case p.isOp("["):
			p.next()
			var lo, hi Expr
			if !p.isOp(":") {
				lo = p.parseImpl()
			}
			if p.isOp(":") {
				p.next()
				if !p.isOp("]") {
					hi = p.parseImpl()
				}
				p.expectOp("]")
				x = &ESlice{x, lo, hi}
			} else {
				p.expectOp("]")
				x = &EIndex{x, lo}
			}
		default:
			return x
		}
	}
}

func (p *eparser) parsePrimary() Expr {
	t := p.next()
	switch t.k {
	case "int":
		return &EInt{t.v}
	case "str":
		return &EStr{t.v}
	case "id":
		switch t.v {
		case "true":
			return &EBool{true}
		case "false":
			return &EBool{false}
		}
		return &EIdent{t.v}
	case "op":
		if t.v == "(" {
			// could be a parenthesised type in a method expr; we only support expressions
			e := p.parseImpl()
			p.expectOp(")")
			return e
		}
	}
	panic(fmt.Sprintf("unexpected token %q", t.v))
}

// ---------- contract file structures ----------

type Clause struct {
	Kind string // requires ensures modifies invariant decreases assert
	Text string
	E    Expr
	Loop int
	Line int
	File string
	// Props: a "requires[C01,C03]" clause is an obligation only at call sites inside functions that are under
	// contract for one of the listed properties (typestate protocols rolled out property by property).
	Props []string
}

type FuncContract struct {
	Name      string // "SMTPEnchCode", "(*Session).Data", "deliver$1"; for externs fully qualified
	Extern    bool
	Params    []QVar // externs / interface methods: declared parameter names (optional)
	Results   []QVar
	Props     []string
	Requires  []*Clause
	Ensures   []*Clause
	Modifies  []*Clause
	Loops     map[int][]*Clause // invariants / decreases per loop ordinal
	NoPanic   bool              // every potential panic in the body is an obligation
	Trusted   bool              // contract is assumed, body not checked (listed)
	Pkg       string
	File      string
	Line      int
	Covers    []*Clause
	Asserts   []*Clause
	Inline    bool
	Labels    []*CallAssert // label <name> before <callee> [#k]: names the state before that call for at(name, e) / passed(name)
	SplitReturns bool // postconditions are checked per return statement (obligations ensures#k.retJ)
	ChanNonNil bool // channel invariant: only non-nil interface values are sent (obligation at sends), so received values are non-nil (assumed at receives)
	NoFrame   bool // the modifies clause is what callers see; the body's frame is assumed, not checked (listed)
	ModifiesAll bool
	CallAsserts []*CallAssert
	LoadAsserts []*CallAssert // assert-load <field> : expr   (at every read of a struct field named <field>; $obj)
	StoreAsserts []*CallAssert // assert-store <field> : expr   (at every store to a struct field named <field>)
	UpdateAsserts []*CallAssert // assert-update <field> : expr   (at every map update through field <field>)
}

// CallAssert: an assertion that must hold at every call of Callee inside the function under contract.
type CallAssert struct {
	Props   []string // assert-store[C09] ...: generated only when one of these properties is being checked
	Callee  string
	Ordinal int // -1: every call; k: the k-th call of the callee in source order
	C       *Clause
}

type SpecFunc struct {
	Kind   string // pure rec uninterp
	Name   string
	Params []QVar
	Ret    string
	Body   Expr
	Text   string
	Pkg    string
}

type Axiom struct {
	Name      string
	E         Expr
	Text      string
	Pkg       string
	Induction string   // lemma: induction variable ("" = proved directly)
	Props     []string // lemma: properties whose checks discharge it
	IsLemma   bool
}

type ExemptRule struct {
	Pattern string
	Reason  string
}

type GhostField struct {
	Type, Name, Sort string
}

type TypeInv struct {
	Type  string
	E     Expr
	Text  string
	Props []string
	Pkg   string
}

type ContractFile struct {
	Pkg        string // import path
	Path       string
	Funcs      []*FuncContract
	SpecFuncs  []*SpecFunc
	Axioms     []*Axiom
	Lemmas     []*Axiom
	Ghosts     []*GhostField
	GhostVars  []*GhostField
	EffectFree []string
	TypeInvs   []*TypeInv
	Relayed    []string
	Exempt     []ExemptRule
	Imports    map[string]string // alias -> import path for type resolution in specs
}

var clauseKeywords = map[string]bool{"requires": true, "ensures": true, "modifies": true, "loop": true, "prop": true, "nopanic": true,
	"trusted": true, "defines": true, "trusted-ensures": true, "proves": true, "covers": true, "func": true, "extern": true, "pure": true, "rec": true, "uninterp": true, "axiom": true, "lemma": true,
	"ghost": true, "effectfree": true, "type-invariant": true, "relayed": true, "exempt": true, "import": true, "inline": true, "noframe": true, "splitreturns": true, "label": true, "assert": true, "assert-call": true, "assert-update": true, "assert-store": true, "assert-load": true, "chan-nonnil": true}

// ParseContractFile reads //@ lines from a file.
func ParseContractFile(path, pkg string) (*ContractFile, error) {
	data, err := os.ReadFile(path)
	if err != nil {
		return nil, err
	}
	return ParseContractText(string(data), path, pkg)
}

func ParseContractText(text, path, pkg string) (*ContractFile, error) {
	cf := &ContractFile{Pkg: pkg, Path: path, Imports: map[string]string{}}
	type ln struct {
		s string
		n int
	}
	var lines []ln
	for i, raw := range strings.Split(text, "\n") {
		t := strings.TrimSpace(raw)
		if !strings.HasPrefix(t, "//@") {
			continue
		}
		body := strings.TrimSpace(strings.TrimPrefix(t, "//@"))
		if body == "" || strings.HasPrefix(body, "#") {
			continue
		}
		first := strings.Fields(body)[0]
		first = strings.TrimSuffix(first, ":")
		if strings.HasPrefix(first, "requires[") {
			first = "requires"
		}
		if strings.HasPrefix(first, "assert-store[") {
			first = "assert-store"
		}
		if !clauseKeywords[first] && len(lines) > 0 {
			lines[len(lines)-1].s += " " + body
			continue
		}
		lines = append(lines, ln{body, i + 1})
	}
	var cur *FuncContract
	fail := func(n int, f string, a ...interface{}) error {
		return fmt.Errorf("%s:%d: %s", path, n, fmt.Sprintf(f, a...))
	}
	mkClause := func(kind, text string, n int) (*Clause, error) {
		e, err := ParseExpr(text)
		if err != nil {
			return nil, fail(n, "%v", err)
		}
		return &Clause{Kind: kind, Text: text, E: e, Line: n, File: path}, nil
	}
	for _, l := range lines {
		fs := strings.Fields(l.s)
		kw := fs[0]
		rest := strings.TrimSpace(strings.TrimPrefix(l.s, kw))
		var scoped []string
		if strings.HasPrefix(kw, "requires[") && strings.HasSuffix(kw, "]") {
			scoped = strings.Split(kw[len("requires["):len(kw)-1], ",")
			kw = "requires"
		}
		if strings.HasPrefix(kw, "assert-store[") && strings.HasSuffix(kw, "]") {
			scoped = strings.Split(kw[len("assert-store["):len(kw)-1], ",")
			kw = "assert-store"
		}
		switch kw {
		case "import":
			// import alias "path"
			if len(fs) != 3 {
				return nil, fail(l.n, "import alias \"path\"")
			}
			p, _ := strconv.Unquote(fs[2])
			cf.Imports[fs[1]] = p
		case "func", "extern":
			ext := kw == "extern"
			if ext {
				rest = strings.TrimSpace(strings.TrimPrefix(rest, "func"))
			}
			cur = &FuncContract{Extern: ext, Loops: map[int][]*Clause{}, Pkg: pkg, File: path, Line: l.n}
			name := rest
			// optional parameter list after the name:  name(a T, b U) (r R)
			if i := sigStart(rest); i >= 0 {
				name = strings.TrimSpace(rest[:i])
				ps, rs, err := parseSig(rest[i:])
				if err != nil {
					return nil, fail(l.n, "%v", err)
				}
				cur.Params, cur.Results = ps, rs
			}
			cur.Name = name
			cf.Funcs = append(cf.Funcs, cur)
		case "prop":
			if cur == nil {
				return nil, fail(l.n, "prop outside func")
			}
			cur.Props = append(cur.Props, fs[1:]...)
		case "nopanic":
			cur.NoPanic = true
		case "trusted":
			cur.Trusted = true
		case "inline":
			cur.Inline = true
		case "chan-nonnil":
			cur.ChanNonNil = true
		case "noframe":
			cur.NoFrame = true
		case "splitreturns":
			cur.SplitReturns = true
		case "label":
			// label <name> before <callee> [#k]
			if cur == nil || len(fs) < 4 || fs[2] != "before" {
				return nil, fail(l.n, "label <name> before <callee> [#k]")
			}
			callee := strings.TrimSpace(strings.SplitN(rest, "before", 2)[1])
			ord := -1
			if h := strings.LastIndex(callee, " #"); h >= 0 {
				o, err := strconv.Atoi(strings.TrimSpace(callee[h+2:]))
				if err != nil {
					return nil, fail(l.n, "label ordinal: %v", err)
				}
				ord = o
				callee = strings.TrimSpace(callee[:h])
			}
			cur.Labels = append(cur.Labels, &CallAssert{Callee: callee, Ordinal: ord, C: &Clause{Kind: "label", Text: fs[1], Line: l.n, File: path}})
		case "requires", "ensures", "proves", "covers", "assert", "defines", "trusted-ensures":
			if cur == nil {
				return nil, fail(l.n, "%s outside func", kw)
			}
			c, err := mkClause(kw, rest, l.n)
			if err != nil {
				return nil, err
			}
			switch kw {
			case "requires":
				c.Props = scoped
				cur.Requires = append(cur.Requires, c)
			case "ensures":
				cur.Ensures = append(cur.Ensures, c)
			case "proves":
				// a postcondition proved for the body but NOT assumed at call sites (for facts about state that the
				// function's caller-facing frame deliberately does not mention)
				c.Kind = "proves"
				cur.Ensures = append(cur.Ensures, c)
			case "defines":
				c.Kind = "defines"
				cur.Ensures = append(cur.Ensures, c)
			case "trusted-ensures":
				c.Kind = "trusted-ensures"
				cur.Ensures = append(cur.Ensures, c)
			case "covers":
				cur.Covers = append(cur.Covers, c)
			case "assert":
				cur.Asserts = append(cur.Asserts, c)
			}
		case "assert-call":
			// assert-call <callee> : expr
			if cur == nil {
				return nil, fail(l.n, "assert-call outside func")
			}
			k := strings.Index(rest, " : ")
			if k < 0 {
				return nil, fail(l.n, "assert-call <callee> : <expr>")
			}
			c, err := mkClause("assert-call", strings.TrimSpace(rest[k+3:]), l.n)
			if err != nil {
				return nil, err
			}
			callee := strings.TrimSpace(rest[:k])
			ord := -1
			if h := strings.LastIndex(callee, " #"); h >= 0 {
				ord, err = strconv.Atoi(strings.TrimSpace(callee[h+2:]))
				if err != nil {
					return nil, fail(l.n, "assert-call ordinal: %v", err)
				}
				callee = strings.TrimSpace(callee[:h])
			}
			cur.CallAsserts = append(cur.CallAsserts, &CallAssert{Callee: callee, Ordinal: ord, C: c})
		case "assert-update":
			// assert-update <field> : expr  -- $map, $key, $value are bound at each map update whose map was loaded from <field>
			if cur == nil {
				return nil, fail(l.n, "assert-update outside func")
			}
			k := strings.Index(rest, " : ")
			if k < 0 {
				return nil, fail(l.n, "assert-update <field> : <expr>")
			}
			c, err := mkClause("assert-update", strings.TrimSpace(rest[k+3:]), l.n)
			if err != nil {
				return nil, err
			}
			cur.UpdateAsserts = append(cur.UpdateAsserts, &CallAssert{Callee: strings.TrimSpace(rest[:k]), Ordinal: -1, C: c})
		case "assert-load":
			// assert-load <field> : expr  -- $obj is bound at each read of a struct field named <field> (through a pointer)
			if cur == nil {
				return nil, fail(l.n, "assert-load outside func")
			}
			k := strings.Index(rest, " : ")
			if k < 0 {
				return nil, fail(l.n, "assert-load <field> : <expr>")
			}
			c, err := mkClause("assert-load", strings.TrimSpace(rest[k+3:]), l.n)
			if err != nil {
				return nil, err
			}
			cur.LoadAsserts = append(cur.LoadAsserts, &CallAssert{Callee: strings.TrimSpace(rest[:k]), Ordinal: -1, C: c})
		case "assert-store":
			// assert-store <field> : expr  -- $obj, $value, $old are bound at each store to a struct field named <field>
			if cur == nil {
				return nil, fail(l.n, "assert-store outside func")
			}
			k := strings.Index(rest, " : ")
			if k < 0 {
				return nil, fail(l.n, "assert-store <field> : <expr>")
			}
			c, err := mkClause("assert-store", strings.TrimSpace(rest[k+3:]), l.n)
			if err != nil {
				return nil, err
			}
			cur.StoreAsserts = append(cur.StoreAsserts, &CallAssert{Callee: strings.TrimSpace(rest[:k]), Ordinal: -1, C: c, Props: scoped})
		case "modifies":
			if cur == nil {
				return nil, fail(l.n, "modifies outside func")
			}
			for _, part := range splitTop(rest, ',') {
				part = strings.TrimSpace(part)
				if part == "*" {
					cur.ModifiesAll = true
					continue
				}
				c, err := mkClause("modifies", part, l.n)
				if err != nil {
					return nil, err
				}
				cur.Modifies = append(cur.Modifies, c)
			}
		case "loop":
			// loop N invariant expr | loop N decreases expr
			if cur == nil || len(fs) < 4 {
				return nil, fail(l.n, "loop N invariant|decreases expr")
			}
			n, err := strconv.Atoi(fs[1])
			if err != nil {
				return nil, fail(l.n, "loop ordinal: %v", err)
			}
			kind := fs[2]
			txt := strings.TrimSpace(strings.SplitN(l.s, kind, 2)[1])
			c, err2 := mkClause(kind, txt, l.n)
			if err2 != nil {
				return nil, err2
			}
			c.Loop = n
			cur.Loops[n] = append(cur.Loops[n], c)
		case "pure", "rec", "uninterp":
			// pure func name(a T, b U) R = expr
			r := strings.TrimSpace(strings.TrimPrefix(rest, "func"))
			i := strings.Index(r, "(")
			if i < 0 {
				return nil, fail(l.n, "spec func syntax")
			}
			sf := &SpecFunc{Kind: kw, Name: strings.TrimSpace(r[:i]), Pkg: pkg, Text: l.s}
			j := matchParen(r, i)
			if j < 0 {
				return nil, fail(l.n, "unbalanced parens")
			}
			ps, err := parseParams(r[i+1 : j])
			if err != nil {
				return nil, fail(l.n, "%v", err)
			}
			sf.Params = ps
			tail := strings.TrimSpace(r[j+1:])
			if kw == "uninterp" {
				sf.Ret = tail
			} else {
				k := strings.Index(tail, "=")
				if k < 0 {
					return nil, fail(l.n, "'=' expected")
				}
				sf.Ret = strings.TrimSpace(tail[:k])
				e, err := ParseExpr(tail[k+1:])
				if err != nil {
					return nil, fail(l.n, "%v", err)
				}
				sf.Body = e
			}
			cf.SpecFuncs = append(cf.SpecFuncs, sf)
			cur = nil
		case "axiom", "lemma":
			k := strings.Index(rest, ":")
			if k < 0 {
				return nil, fail(l.n, "axiom name: expr")
			}
			e, err := ParseExpr(rest[k+1:])
			if err != nil {
				return nil, fail(l.n, "%v", err)
			}
			a := &Axiom{Name: strings.TrimSpace(rest[:k]), E: e, Text: strings.TrimSpace(rest[k+1:]), Pkg: pkg}
			if kw == "lemma" {
				// lemma <name> [induction <var>] [prop Cxx ...]: expr
				hf := strings.Fields(rest[:k])
				a.Name = hf[0]
				a.IsLemma = true
				for i := 1; i < len(hf); i++ {
					switch hf[i] {
					case "induction":
						if i+1 < len(hf) {
							a.Induction = hf[i+1]
							i++
						}
					case "prop":
						a.Props = append(a.Props, hf[i+1:]...)
						i = len(hf)
					}
				}
			}
			if kw == "axiom" {
				cf.Axioms = append(cf.Axioms, a)
			} else {
				cf.Lemmas = append(cf.Lemmas, a)
			}
			cur = nil
		case "ghost":
			// ghost field T.f Sort | ghost var g Sort
			if len(fs) < 4 {
				return nil, fail(l.n, "ghost field T.f Sort")
			}
			if fs[1] == "field" {
				k := strings.LastIndex(fs[2], ".")
				cf.Ghosts = append(cf.Ghosts, &GhostField{Type: fs[2][:k], Name: fs[2][k+1:], Sort: strings.Join(fs[3:], " ")})
			} else {
				cf.GhostVars = append(cf.GhostVars, &GhostField{Name: fs[2], Sort: strings.Join(fs[3:], " ")})
			}
			cur = nil
		case "effectfree":
			cf.EffectFree = append(cf.EffectFree, fs[1:]...)
			cur = nil
		case "relayed":
			cf.Relayed = append(cf.Relayed, fs[1:]...)
			cur = nil
		case "exempt":
			// exempt <obligation name> : reason
			k := strings.Index(rest, " : ")
			if k < 0 {
				return nil, fail(l.n, "exempt <obligation> : <reason>")
			}
			cf.Exempt = append(cf.Exempt, ExemptRule{Pattern: strings.TrimSpace(rest[:k]), Reason: strings.TrimSpace(rest[k+3:])})
			cur = nil
		case "type-invariant":
			// type-invariant[C16] T: expr
			k := strings.Index(rest, ":")
			if k < 0 {
				return nil, fail(l.n, "type-invariant T: expr")
			}
			head := strings.Fields(rest[:k])
			e, err := ParseExpr(rest[k+1:])
			if err != nil {
				return nil, fail(l.n, "%v", err)
			}
			ti := &TypeInv{Type: head[0], E: e, Text: strings.TrimSpace(rest[k+1:]), Pkg: pkg}
			ti.Props = head[1:]
			cf.TypeInvs = append(cf.TypeInvs, ti)
			cur = nil
		default:
			return nil, fail(l.n, "unknown keyword %q", kw)
		}
	}
	return cf, nil
}

func sigStart(s string) int {
	// name may itself start with "(*T).M"; the signature is the first '(' after the method/func name
	i := 0
	if strings.HasPrefix(s, "(") {
		j := matchParen(s, 0)
		if j < 0 {
			return -1
		}
		i = j + 1
	}
	k := strings.Index(s[i:], "(")
	if k < 0 {
		return -1
	}
	return i + k
}

func matchParen(s string, i int) int {
	d := 0
	for j := i; j < len(s); j++ {
		switch s[j] {
		case '(':
			d++
		case ')':
			d--
			if d == 0 {
				return j
			}
		}
	}
	return -1
}

func splitTop(s string, sep byte) []string {
	var out []string
	d := 0
	last := 0
	for i := 0; i < len(s); i++ {
		switch s[i] {
		case '(', '[':
			d++
		case ')', ']':
			d--
		default:
			if s[i] == sep && d == 0 {
				out = append(out, s[last:i])
				last = i + 1
			}
		}
	}
	out = append(out, s[last:])
	return out
}

func parseParams(s string) ([]QVar, error) {
	var out []QVar
	s = strings.TrimSpace(s)
	if s == "" {
		return nil, nil
	}
	for _, part := range splitTop(s, ',') {
		fs := strings.Fields(part)
		if len(fs) < 2 {
			return nil, fmt.Errorf("parameter %q needs a name and a type", part)
		}
		out = append(out, QVar{fs[0], strings.Join(fs[1:], " ")})
	}
	return out, nil
}

func parseSig(s string) (ps, rs []QVar, err error) {
	j := matchParen(s, 0)
	if j < 0 {
		return nil, nil, fmt.Errorf("unbalanced signature %q", s)
	}
	ps, err = parseParams(s[1:j])
	if err != nil {
		return
	}
	tail := strings.TrimSpace(s[j+1:])
	if tail == "" {
		return
	}
	if strings.HasPrefix(tail, "(") {
		k := matchParen(tail, 0)
		rs, err = parseParams(tail[1:k])
		return
	}
	rs = []QVar{{"result", tail}}
	return
}
