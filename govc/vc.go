package main

// Verification-condition generation from go/ssa, function by function.

import (
	"fmt"
	"go/ast"
	"go/constant"
	"go/token"
	"go/types"
	"sort"
	"strings"

	"golang.org/x/tools/go/ssa"
)

type Oblig struct {
	Name   string
	Kind   string
	Fn     string
	Guard  string // reachability condition
	Form   string // formula that must hold
	Text   string // human readable
	Pos    string
	Result string // unsat (discharged) | sat | unknown | timeout
	Solver string
	Secs   float64
	Model  string
	Values map[string]string
	IsCover bool // must be SAT
	Exempt  string // non-empty: obligation is generated and solved but not demanded (reason)
}

type Loc struct {
	Kind  int // 0 obj root, 1 field, 2 cell, 3 elem
	Key   string
	Ref   string
	Idx   string
	Path  []PathStep
	T     types.Type // type of value at loc (after path)
	RootT types.Type // type of the heap-stored value (before path)
	Opaque string    // when non-empty, term for the pointer itself
}

const (
	LObj = iota
	LField
	LCell
	LElem
	LLocal // non-escaping local variable: its own heap key holding the value directly
)

type PathStep struct {
	IsIndex bool
	Field   int
	Index   string
	ContT   types.Type // container type (struct or array)
}

type State struct {
	heap  map[string]string
	epoch int
	alloc string
}

func (s *State) clone() *State {
	n := &State{heap: map[string]string{}, epoch: s.epoch, alloc: s.alloc}
	for k, v := range s.heap {
		n.heap[k] = v
	}
	return n
}

type havocRec struct {
	newEpoch int
	pre      *State
	preAlloc string
}

type mergeRec struct {
	newEpoch int
	parts    []mergePart
}
type mergePart struct {
	cond string
	st   *State
}

type LoopInfo struct {
	NonFresh map[string]bool // keys modified in the loop on arbitrary objects that may pre-date the loop
	OldRefs  map[string][]ssa.Value // keys modified in the loop only on these loop-invariant objects (and fresh ones)
	OldRefTerms map[string][]string // same, as terms evaluated in the pre-loop state (maps loaded from a field the loop does not write)
	ViewOnly map[string]bool // keys also written at interior-pointer views (negative addresses) by the loop
	Header  *ssa.BasicBlock
	Blocks  map[*ssa.BasicBlock]bool
	Ordinal int
	Stmt    ast.Node
}

type FnVC struct {
	keyTypes map[string]types.Type // Go type of the values stored under a field / cell heap key
	mapElemTypes map[string]types.Type // element type of map-value heaps (MV: keys)
	labelStates map[string]*State // label name -> state before the labelled call
	labelGuards map[string]string // label name -> reachability of the labelled call
	labelSites  map[string][2]interface{}
	W       *World
	Fn      *ssa.Function
	C       *FuncContract
	S       *Sorts
	decls   []string
	asserts []string
	obligs  []*Oblig
	vals    map[ssa.Value]Term
	ptrs    map[ssa.Value]*Loc
	tuples  map[ssa.Value][]Term
	reach   map[*ssa.BasicBlock]string
	outSt   map[*ssa.BasicBlock]*State
	edgeCond map[[2]*ssa.BasicBlock]string
	heapSorts map[string]string
	heapInit  map[string]bool // "key@epoch" declared
	merges  []mergeRec
	nextEpoch int
	fresh   int
	entry   *State
	loops   map[*ssa.BasicBlock]*LoopInfo
	backEdge map[[2]*ssa.BasicBlock]bool
	cur     *State
	curBlock *ssa.BasicBlock
	counters map[string]int
	notes   []string // imprecision / assumption notes
	assumedCallees map[string]bool
	errs    []string
	recApps map[string]bool
	recQueue []recApp
	retCount int
	iterKeys map[ssa.Value]string
	debugNames map[*ssa.BasicBlock]map[string]ssa.Value
	implFacts map[string]bool
	nopanic bool
	deferred []*ssa.Defer
	closureBind map[*ssa.Function]*ssa.MakeClosure
	deferGuards []string
	hdrStates map[*ssa.BasicBlock]*State
	ifaceFuncs map[string]*types.Interface
	rets []retSite
	exitResults []Term
	exitState *State
	litAfter map[ssa.Instruction][]*ssa.Alloc
	litOrd map[*ssa.Alloc]int
	LitProp string
	lemmaName string
	addrIDs map[string]int
	stableCells []stableCell
	havocs []havocRec
	initOnly map[string]bool
	provingLemma *Axiom
}

// stableCell: a captured-variable cell whose content survives calls with unknown effects (see immut.go).
type stableCell struct {
	key   string
	ref   string
	src   ssa.Value // the Alloc (declaring function) or FreeVar (closure) behind the cell
	field int       // field index for an unescaped struct variable, -1 for a plain cell
}

type recApp struct {
	f    *SpecFunc
	args []Term
	fuel int
}

func (v *FnVC) note(f string, a ...interface{}) {
	s := fmt.Sprintf(f, a...)
	for _, n := range v.notes {
		if n == s {
			return
		}
	}
	v.notes = append(v.notes, s)
}

func (v *FnVC) freshName(base string) string {
	v.fresh++
	return fmt.Sprintf("%s!%d", sanitize(base), v.fresh)
}

func (v *FnVC) declConst(name, sort string) {
	v.decls = append(v.decls, fmt.Sprintf("(declare-const %s %s)", name, sort))
}

func (v *FnVC) freshConst(base, sort string) string {
	n := v.freshName(base)
	v.declConst(n, sort)
	return n
}

func (v *FnVC) assume(guard, f string) {
	if f == "true" {
		return
	}
	if guard == "" || guard == "true" {
		v.asserts = append(v.asserts, f)
	} else {
		v.asserts = append(v.asserts, fmt.Sprintf("(=> %s %s)", guard, f))
	}
}

func (v *FnVC) define(base, sort, term string) string {
	n := v.freshConst(base, sort)
	v.asserts = append(v.asserts, fmt.Sprintf("(= %s %s)", n, term))
	return n
}

func (v *FnVC) posOf(p token.Pos) string {
	if !p.IsValid() {
		return ""
	}
	pp := v.W.Fset.Position(p)
	return fmt.Sprintf("%s:%d", strings.TrimPrefix(pp.Filename, v.W.RepoDir+"/"), pp.Line)
}

func (v *FnVC) oblige(kind, form, text string, pos token.Pos) *Oblig {
	n := v.counters[kind]
	v.counters[kind] = n + 1
	o := &Oblig{Name: fmt.Sprintf("%s/%s#%d", v.fnName(), kind, n), Kind: kind, Fn: v.fnName(), Guard: v.reach[v.curBlock], Form: form, Text: text, Pos: v.posOf(pos)}
	v.obligs = append(v.obligs, o)
	return o
}

func (v *FnVC) fnName() string {
	if v.Fn == nil {
		return v.lemmaName
	}
	return v.W.FuncDisplayName(v.Fn)
}

// ---------- heap ----------

func (v *FnVC) heapGet(st *State, key string) string {
	if t, ok := st.heap[key]; ok {
		return t
	}
	so, ok := v.heapSorts[key]
	if !ok {
		panic("heap key without sort: " + key)
	}
	name := fmt.Sprintf("H_%s@%d", sanitize(key), st.epoch)
	if !v.heapInit[name] {
		v.heapInit[name] = true
		v.declConst(name, so)
		// closed entry heap: references stored in the heap the function starts with denote objects that exist at
		// entry (they are older than anything the function allocates)
		if v.entry != nil && st.epoch == v.entry.epoch && v.entry.alloc != "" {
			if kt, ok := v.keyTypes[key]; ok && kt != nil {
				switch kt.Underlying().(type) {
				case *types.Slice:
					v.asserts = append(v.asserts, fmt.Sprintf("(forall ((a Int)) (! (< (sarr (select %s a)) %s) :pattern ((select %s a))))", name, v.entry.alloc, name))
				case *types.Pointer, *types.Map, *types.Chan:
					v.asserts = append(v.asserts, fmt.Sprintf("(forall ((a Int)) (! (< (select %s a) %s) :pattern ((select %s a))))", name, v.entry.alloc, name))
				}
			}
			// references stored as map values in the entry heap exist at entry as well
			if et, ok := v.mapElemTypes[key]; ok && et != nil {
				switch et.Underlying().(type) {
				case *types.Pointer, *types.Map, *types.Chan:
					ks := strings.TrimPrefix(so, "(Array Int (Array ")
					if i := strings.LastIndex(ks, " "); i > 0 {
						ks = ks[:i]
						v.asserts = append(v.asserts, fmt.Sprintf("(forall ((a Int) (k %s)) (! (< (select (select %s a) k) %s) :pattern ((select (select %s a) k))))", ks, name, v.entry.alloc, name))
					}
				}
			}
		}
		// late merge definitions
		for _, m := range v.merges {
			if m.newEpoch == st.epoch {
				v.emitMergeDef(key, name, m)
			}
		}
		// key first seen after a havoc of the whole heap: init-only fields keep their values in older objects
		if v.initOnly[key] {
			for _, h := range v.havocs {
				if h.newEpoch == st.epoch {
					pre := v.heapGet(h.pre, key)
					v.asserts = append(v.asserts, fmt.Sprintf("(forall ((a Int)) (! (=> (< a %s) (= (select %s a) (select %s a))) :pattern ((select %s a))))", h.preAlloc, name, pre, name))
				}
			}
		}
	}
	return name
}

func (v *FnVC) emitMergeDef(key, name string, m mergeRec) {
	// name = ite(c1, h1, ite(c2, h2, ... hn))
	t := v.heapGet(m.parts[len(m.parts)-1].st, key)
	for i := len(m.parts) - 2; i >= 0; i-- {
		t = fmt.Sprintf("(ite %s %s %s)", m.parts[i].cond, v.heapGet(m.parts[i].st, key), t)
	}
	v.asserts = append(v.asserts, fmt.Sprintf("(= %s %s)", name, t))
}

func (v *FnVC) regKey(key, sort string) string {
	if old, ok := v.heapSorts[key]; ok {
		if old != sort {
			panic(fmt.Sprintf("heap key %s sort clash %s vs %s", key, old, sort))
		}
		return key
	}
	v.heapSorts[key] = sort
	return key
}

func (v *FnVC) heapSet(st *State, key, term string) {
	so := v.heapSorts[key]
	n := v.define("H_"+key, so, term)
	st.heap[key] = n
}

func (v *FnVC) havocKey(st *State, key string) {
	so := v.heapSorts[key]
	st.heap[key] = v.freshConst("Hh_"+key, so)
}

func (v *FnVC) havocAll(st *State) { v.havocAllExcept(st, nil) }

// havocAllExcept: skip[i] excludes stable cell i from being preserved (loop headers: cells the loop body writes).
func (v *FnVC) havocAllExcept(st *State, skip map[int]bool) {
	v.nextEpoch++
	old := st.heap
	oldEpoch := st.epoch
	st.epoch = v.nextEpoch
	st.heap = map[string]string{}
	// non-escaping locals and range iterators are not reachable by callees
	for k := range v.heapSorts {
		if strings.HasPrefix(k, "L:") || strings.HasPrefix(k, "IT:") {
			if t, ok := old[k]; ok {
				st.heap[k] = t
			} else {
				st.heap[k] = v.heapGet(&State{heap: old, epoch: oldEpoch}, k)
			}
		}
	}
	oldAlloc := st.alloc
	st.alloc = v.freshConst("alloc", "Int")
	v.asserts = append(v.asserts, fmt.Sprintf("(>= %s %s)", st.alloc, oldAlloc))
	// init-only fields of objects that existed before the call keep their values
	var ks []string
	for k, io := range v.initOnly {
		if io {
			ks = append(ks, k)
		}
	}
	sort.Strings(ks)
	v.havocs = append(v.havocs, havocRec{newEpoch: st.epoch, pre: &State{heap: old, epoch: oldEpoch, alloc: oldAlloc}, preAlloc: oldAlloc})
	byKey := map[string][]string{}
	var cellKeys []string
	for i, sc := range v.stableCells {
		if skip[i] {
			if _, seen := byKey[sc.key]; !seen {
				cellKeys = append(cellKeys, sc.key)
				byKey[sc.key] = nil
			}
			continue
		}
		if _, seen := byKey[sc.key]; !seen {
			cellKeys = append(cellKeys, sc.key)
		}
		byKey[sc.key] = append(byKey[sc.key], sc.ref)
	}
	for _, k := range cellKeys {
		pre := v.heapGet(&State{heap: old, epoch: oldEpoch}, k)
		nw := v.freshConst("Hsc_"+k, v.heapSorts[k])
		st.heap[k] = nw
		for _, r := range byKey[k] {
			v.asserts = append(v.asserts, fmt.Sprintf("(= (select %s %s) (select %s %s))", nw, r, pre, r))
		}
	}
	for _, k := range ks {
		pre := v.heapGet(&State{heap: old, epoch: oldEpoch}, k)
		nw := v.freshConst("Hio_"+k, v.heapSorts[k])
		st.heap[k] = nw
		v.asserts = append(v.asserts, fmt.Sprintf("(forall ((a Int)) (! (=> (< a %s) (= (select %s a) (select %s a))) :pattern ((select %s a))))", oldAlloc, nw, pre, nw))
	}
}

func (v *FnVC) mergeStates(parts []mergePart) *State {
	if len(parts) == 1 {
		return parts[0].st.clone()
	}
	sameEpoch := true
	for _, p := range parts[1:] {
		if p.st.epoch != parts[0].st.epoch {
			sameEpoch = false
		}
	}
	res := &State{heap: map[string]string{}}
	if sameEpoch {
		res.epoch = parts[0].st.epoch
	} else {
		v.nextEpoch++
		res.epoch = v.nextEpoch
		v.merges = append(v.merges, mergeRec{newEpoch: res.epoch, parts: parts})
	}
	keys := map[string]bool{}
	for _, p := range parts {
		for k := range p.st.heap {
			keys[k] = true
		}
	}
	if !sameEpoch {
		// every key known so far must be merged explicitly (or lazily via merges)
		for k := range v.heapSorts {
			keys[k] = true
		}
	}
	var ks []string
	for k := range keys {
		ks = append(ks, k)
	}
	sort.Strings(ks)
	for _, k := range ks {
		first := v.heapGet(parts[0].st, k)
		same := true
		for _, p := range parts[1:] {
			if v.heapGet(p.st, k) != first {
				same = false
			}
		}
		if same {
			if _, ok := parts[0].st.heap[k]; ok || !sameEpoch {
				res.heap[k] = first
			}
			continue
		}
		t := v.heapGet(parts[len(parts)-1].st, k)
		for i := len(parts) - 2; i >= 0; i-- {
			t = fmt.Sprintf("(ite %s %s %s)", parts[i].cond, v.heapGet(parts[i].st, k), t)
		}
		res.heap[k] = v.define("H_"+k, v.heapSorts[k], t)
	}
	// alloc counter
	a := parts[0].st.alloc
	same := true
	for _, p := range parts[1:] {
		if p.st.alloc != a {
			same = false
		}
	}
	if same {
		res.alloc = a
	} else {
		t := parts[len(parts)-1].st.alloc
		for i := len(parts) - 2; i >= 0; i-- {
			t = fmt.Sprintf("(ite %s %s %s)", parts[i].cond, parts[i].st.alloc, t)
		}
		res.alloc = v.define("alloc", "Int", t)
	}
	return res
}

// heap keys
func (v *FnVC) fieldKey(st types.Type, field *types.Var) string {
	k := v.regKey("F:"+typeKey(st)+"."+field.Name(), fmt.Sprintf("(Array Int %s)", v.S.SortOf(field.Type())))
	if v.keyTypes == nil {
		v.keyTypes = map[string]types.Type{}
	}
	v.keyTypes[k] = field.Type()
	if _, seen := v.initOnly[k]; !seen {
		if v.initOnly == nil {
			v.initOnly = map[string]bool{}
		}
		v.initOnly[k] = v.W.IsInitOnly(st, field)
		if v.initOnly[k] {
			v.note("field %s.%s is init-only (never written after construction in its package): kept across unknown calls", typeKey(st), field.Name())
		}
	}
	return k
}
func (v *FnVC) cellKey(t types.Type) string {
	k := v.regKey("C:"+typeKey(t), fmt.Sprintf("(Array Int %s)", v.S.SortOf(t)))
	if v.keyTypes == nil {
		v.keyTypes = map[string]types.Type{}
	}
	v.keyTypes[k] = t
	return k
}
func (v *FnVC) elemKey(t types.Type) string {
	return v.regKey("E:"+sanitize(v.S.SortOf(t)), fmt.Sprintf("(Array Int (Array Int %s))", v.S.SortOf(t)))
}
func (v *FnVC) mapKeys(m *types.Map) (dom, val, ln string) {
	ks, vs := v.S.SortOf(m.Key()), v.S.SortOf(m.Elem())
	// one heap per Go map type (key and element type), not per sort: maps of different types never alias
	id := typeKey(m.Key()) + "_" + typeKey(m.Elem())
	dom = v.regKey("MD:"+id, fmt.Sprintf("(Array Int (Array %s Bool))", ks))
	val = v.regKey("MV:"+id, fmt.Sprintf("(Array Int (Array %s %s))", ks, vs))
	if v.mapElemTypes == nil {
		v.mapElemTypes = map[string]types.Type{}
	}
	v.mapElemTypes[val] = m.Elem()
	ln = v.regKey("ML:"+id, "(Array Int Int)")
	return
}

func structOf(t types.Type) (*types.Struct, bool) {
	st, ok := t.Underlying().(*types.Struct)
	return st, ok
}

func deref(t types.Type) types.Type {
	if p, ok := t.Underlying().(*types.Pointer); ok {
		return p.Elem()
	}
	return t
}

// locFromPtr builds a location for an opaque pointer term of type *T.
func (v *FnVC) locFromPtr(ptr string, elem types.Type) *Loc {
	if _, ok := structOf(elem); ok {
		return &Loc{Kind: LObj, Ref: ptr, T: elem, RootT: elem, Opaque: ptr}
	}
	return &Loc{Kind: LCell, Key: v.cellKey(elem), Ref: ptr, T: elem, RootT: elem, Opaque: ptr}
}

func (v *FnVC) locOf(x ssa.Value) *Loc {
	if l, ok := v.ptrs[x]; ok {
		return l
	}
	t := v.val(x)
	return v.locFromPtr(t.S, deref(x.Type()))
}

// ptrTerm gives an Int term for a location used as a first-class pointer.
func (v *FnVC) ptrTerm(l *Loc) string {
	if l.Opaque != "" {
		return l.Opaque
	}
	// one address function per (location kind, key, path shape); an id and inverse functions make addresses of
	// different shapes / different objects / different indices distinct (injectivity by instance axioms)
	name := "addr_" + sanitize(l.Key)
	args := []string{l.Ref}
	sig := []string{"Int"}
	if l.Kind == LLocal {
		args, sig = nil, nil
	}
	if l.Kind == LElem {
		args = append(args, l.Idx)
		sig = append(sig, "Int")
	}
	for _, p := range l.Path {
		if p.IsIndex {
			name += "_i"
			args = append(args, p.Index)
			sig = append(sig, "Int")
		} else {
			name += fmt.Sprintf("_f%d", p.Field)
		}
	}
	v.S.declFun(name, "("+strings.Join(sig, " ")+") Int")
	t := "(" + name + " " + strings.Join(args, " ") + ")"
	if len(args) == 0 {
		t = name
	}
	if v.implFacts["addr:"+t] {
		return t
	}
	v.implFacts["addr:"+t] = true
	if v.addrIDs == nil {
		v.addrIDs = map[string]int{}
	}
	id, ok := v.addrIDs[name]
	if !ok {
		id = len(v.addrIDs) + 1
		v.addrIDs[name] = id
	}
	v.S.declFun("addr_shape", "(Int) Int")
	// interior pointers are non-nil; they live in the negative range so that they never coincide with an allocated
	// object (frames and freshness talk about refs > 0)
	v.asserts = append(v.asserts, fmt.Sprintf("(< %s 0)", t))
	v.asserts = append(v.asserts, fmt.Sprintf("(= (addr_shape %s) %d)", t, id))
	for k, a := range args {
		inv := fmt.Sprintf("addr_arg%d", k)
		v.S.declFun(inv, "(Int) Int")
		v.asserts = append(v.asserts, fmt.Sprintf("(= (%s %s) %s)", inv, t, a))
	}
	return t
}

func (v *FnVC) readRoot(st *State, l *Loc) string {
	switch l.Kind {
	case LLocal:
		return v.heapGet(st, l.Key)
	case LField, LCell:
		return fmt.Sprintf("(select %s %s)", v.heapGet(st, l.Key), l.Ref)
	case LElem:
		return fmt.Sprintf("(select (select %s %s) %s)", v.heapGet(st, l.Key), l.Ref, l.Idx)
	}
	panic("readRoot on object")
}

func (v *FnVC) writeRoot(st *State, l *Loc, val string) {
	switch l.Kind {
	case LLocal:
		v.heapSet(st, l.Key, val)
	case LField, LCell:
		v.heapSet(st, l.Key, fmt.Sprintf("(store %s %s %s)", v.heapGet(st, l.Key), l.Ref, val))
	case LElem:
		h := v.heapGet(st, l.Key)
		v.heapSet(st, l.Key, fmt.Sprintf("(store %s %s (store (select %s %s) %s %s))", h, l.Ref, h, l.Ref, l.Idx, val))
	default:
		panic("writeRoot on object")
	}
}

// project applies a path to a value term.
func (v *FnVC) project(base string, baseT types.Type, path []PathStep) (string, types.Type) {
	t := baseT
	s := base
	for _, p := range path {
		if p.IsIndex {
			arr := t.Underlying().(*types.Array)
			s = v.arrSelect(s, arr, p.Index)
			t = arr.Elem()
		} else {
			st := t.Underlying().(*types.Struct)
			s = fmt.Sprintf("(%s__%s %s)", v.S.SortOf(t), fieldAcc(st, p.Field), s)
			t = st.Field(p.Field).Type()
		}
	}
	return s, t
}

func (v *FnVC) arrSelect(a string, arr *types.Array, idx string) string {
	so := v.S.SortOf(arr)
	if arr.Len() <= 4 {
		if arr.Len() == 0 {
			return v.S.Zero(arr.Elem()).S
		}
		// constant index?
		var n int64 = -1
		if _, err := fmt.Sscanf(idx, "%d", &n); err == nil && fmt.Sprint(n) == idx && n >= 0 && n < arr.Len() {
			return fmt.Sprintf("(%s_%d %s)", so, n, a)
		}
		t := fmt.Sprintf("(%s_%d %s)", so, arr.Len()-1, a)
		for i := arr.Len() - 2; i >= 0; i-- {
			t = fmt.Sprintf("(ite (= %s %d) (%s_%d %s) %s)", idx, i, so, i, a, t)
		}
		return t
	}
	return fmt.Sprintf("(select %s %s)", a, idx)
}

func (v *FnVC) arrStore(a string, arr *types.Array, idx, val string) string {
	so := v.S.SortOf(arr)
	if arr.Len() <= 4 {
		var parts []string
		for i := int64(0); i < arr.Len(); i++ {
			parts = append(parts, fmt.Sprintf("(ite (= %s %d) %s (%s_%d %s))", idx, i, val, so, i, a))
		}
		return fmt.Sprintf("(mk_%s %s)", so, strings.Join(parts, " "))
	}
	return fmt.Sprintf("(store %s %s %s)", a, idx, val)
}

// updatePath returns base with the element at path replaced by val.
func (v *FnVC) updatePath(base string, baseT types.Type, path []PathStep, val string) string {
	if len(path) == 0 {
		return val
	}
	p := path[0]
	if p.IsIndex {
		arr := baseT.Underlying().(*types.Array)
		inner := v.arrSelect(base, arr, p.Index)
		nv := v.updatePath(inner, arr.Elem(), path[1:], val)
		return v.arrStore(base, arr, p.Index, nv)
	}
	st := baseT.Underlying().(*types.Struct)
	so := v.S.SortOf(baseT)
	var parts []string
	for i := 0; i < st.NumFields(); i++ {
		sel := fmt.Sprintf("(%s__%s %s)", so, fieldAcc(st, i), base)
		if i == p.Field {
			parts = append(parts, v.updatePath(sel, st.Field(i).Type(), path[1:], val))
		} else {
			parts = append(parts, sel)
		}
	}
	return fmt.Sprintf("(mk_%s %s)", so, strings.Join(parts, " "))
}

func (v *FnVC) load(st *State, l *Loc) Term {
	if l.Kind == LObj {
		s, _ := structOf(l.T)
		so := v.S.SortOf(l.T)
		if s.NumFields() == 0 {
			return Term{S: "mk_" + so, Sort: so, T: l.T}
		}
		var parts []string
		for i := 0; i < s.NumFields(); i++ {
			k := v.fieldKey(l.T, s.Field(i))
			parts = append(parts, fmt.Sprintf("(select %s %s)", v.heapGet(st, k), l.Ref))
		}
		return Term{S: fmt.Sprintf("(mk_%s %s)", so, strings.Join(parts, " ")), Sort: so, T: l.T}
	}
	root := v.readRoot(st, l)
	s, t := v.project(root, l.RootT, l.Path)
	return Term{S: s, Sort: v.S.SortOf(t), T: t}
}

func (v *FnVC) store(st *State, l *Loc, val Term) {
	if l.Kind == LObj {
		s, _ := structOf(l.T)
		so := v.S.SortOf(l.T)
		for i := 0; i < s.NumFields(); i++ {
			k := v.fieldKey(l.T, s.Field(i))
			fv := fmt.Sprintf("(%s__%s %s)", so, fieldAcc(s, i), val.S)
			v.heapSet(st, k, fmt.Sprintf("(store %s %s %s)", v.heapGet(st, k), l.Ref, fv))
		}
		return
	}
	if len(l.Path) == 0 {
		v.writeRoot(st, l, val.S)
		return
	}
	root := v.readRoot(st, l)
	v.writeRoot(st, l, v.updatePath(root, l.RootT, l.Path, val.S))
}

// ---------- well-formedness of values of a type ----------

func (v *FnVC) wf(t Term, depth int) string {
	if t.T == nil || strings.HasPrefix(t.Sort, "(Array ") {
		return "true"
	}
	switch u := t.T.Underlying().(type) {
	case *types.Basic:
		if lo, hi, ok := intRange(t.T); ok {
			return fmt.Sprintf("(and (<= %s %s) (<= %s %s))", lo, t.S, t.S, hi)
		}
		if u.Info()&types.IsString != 0 {
			return v.strWF(t.S)
		}
	case *types.Pointer:
		return "true" // 0 = nil, positive = objects, negative = interior addresses (fields, elements, locals)
	case *types.Map, *types.Chan, *types.Signature:
		return fmt.Sprintf("(>= %s 0)", t.S)
	case *types.Interface:
		return fmt.Sprintf("(and (>= (itag %s) 0) (=> (= (itag %s) 0) (= (ival %s) 0)))", t.S, t.S, t.S)
	case *types.Slice:
		return fmt.Sprintf("(and (>= (sarr %s) 0) (= (soff %s) 0) (>= (slen %s) 0) (>= (scap %s) (slen %s)) (<= (scap %s) 281474976710656) (=> (= (sarr %s) 0) (= (scap %s) 0)))", t.S, t.S, t.S, t.S, t.S, t.S, t.S, t.S)
	case *types.Struct:
		if depth <= 0 {
			return "true"
		}
		so := v.S.SortOf(t.T)
		var parts []string
		for i := 0; i < u.NumFields(); i++ {
			f := u.Field(i)
			ft := Term{S: fmt.Sprintf("(%s__%s %s)", so, fieldAcc(u, i), t.S), Sort: v.S.SortOf(f.Type()), T: f.Type()}
			if _, isPtr := f.Type().Underlying().(*types.Pointer); isPtr {
				continue // a pointer field of a struct value may hold an interior address (negative in the encoding)
			}
			w := v.wf(ft, depth-1)
			if w != "true" {
				parts = append(parts, w)
			}
		}
		if len(parts) == 0 {
			return "true"
		}
		return "(and " + strings.Join(parts, " ") + ")"
	case *types.Array:
		if depth <= 0 || u.Len() > 4 {
			return "true"
		}
		var parts []string
		for i := int64(0); i < u.Len(); i++ {
			et := Term{S: v.arrSelect(t.S, u, fmt.Sprint(i)), Sort: v.S.SortOf(u.Elem()), T: u.Elem()}
			w := v.wf(et, depth-1)
			if w != "true" {
				parts = append(parts, w)
			}
		}
		if len(parts) == 0 {
			return "true"
		}
		return "(and " + strings.Join(parts, " ") + ")"
	}
	return "true"
}

func (v *FnVC) strWF(s string) string {
	e := v.S.StrLit("")
	return fmt.Sprintf("(and (>= (len_s %s) 0) (<= (len_s %s) 281474976710656) (= (= (len_s %s) 0) (= %s %s)))", s, s, s, s, e)
}

func (v *FnVC) assumeWF(t Term) {
	w := v.wf(t, 3)
	if w != "true" {
		v.asserts = append(v.asserts, w)
	}
}

func (v *FnVC) havocVal(base string, t types.Type) Term {
	so := v.S.SortOf(t)
	n := v.freshConst(base, so)
	tm := Term{S: n, Sort: so, T: t}
	v.assumeWF(tm)
	return tm
}

// ---------- values ----------

func (v *FnVC) constTerm(c *ssa.Const) Term {
	t := c.Type()
	so := v.S.SortOf(t)
	if c.Value == nil {
		return v.S.Zero(t)
	}
	switch c.Value.Kind() {
	case constant.Bool:
		return Term{S: fmt.Sprint(constant.BoolVal(c.Value)), Sort: "Bool", T: t}
	case constant.Int:
		s := c.Value.ExactString()
		if strings.HasPrefix(s, "-") {
			s = "(- " + s[1:] + ")"
		}
		if so == "Float" {
			return Term{S: v.floatConst(c.Value.ExactString()), Sort: so, T: t}
		}
		return Term{S: s, Sort: "Int", T: t}
	case constant.String:
		return Term{S: v.S.StrLit(constant.StringVal(c.Value)), Sort: "Str", T: t}
	case constant.Float, constant.Complex:
		return Term{S: v.floatConst(c.Value.ExactString()), Sort: "Float", T: t}
	}
	return v.S.Zero(t)
}

func (v *FnVC) floatConst(s string) string {
	n := "flt_" + sanitize(s)
	v.S.declFun(n, "() Float")
	return n
}

func (v *FnVC) val(x ssa.Value) Term {
	if t, ok := v.vals[x]; ok {
		return t
	}
	switch c := x.(type) {
	case *ssa.Const:
		return v.constTerm(c)
	case *ssa.Global:
		// address of a package-level variable: a cell/obj with a fixed ref
		name := "glob_" + sanitize(c.Pkg.Pkg.Path()+"."+c.Name())
		v.S.declFun(name, "() Int")
		if !v.implFacts["g:"+name] {
			v.implFacts["g:"+name] = true
			v.asserts = append(v.asserts, fmt.Sprintf("(> %s 0)", name))
		}
		t := Term{S: name, Sort: "Int", T: c.Type()}
		v.vals[x] = t
		return t
	case *ssa.Function:
		name := "fn_" + sanitize(c.String())
		v.S.declFun(name, "() Int")
		if !v.implFacts["g:"+name] {
			v.implFacts["g:"+name] = true
			v.asserts = append(v.asserts, fmt.Sprintf("(> %s 0)", name))
		}
		t := Term{S: name, Sort: "Int", T: c.Type()}
		v.vals[x] = t
		return t
	case *ssa.FreeVar:
		// captured variable: pointer to cell (free vars are always pointers unless captured by value)
		t := v.havocVal("fv_"+c.Name(), c.Type())
		v.vals[x] = t
		return t
	case *ssa.Builtin:
		return Term{S: "0", Sort: "Int", T: nil}
	}
	if l, ok := v.ptrs[x]; ok {
		t := Term{S: v.ptrTerm(l), Sort: "Int", T: x.Type()}
		v.vals[x] = t
		return t
	}
	// value not yet defined (e.g. used across cut back edge): havoc
	t := v.havocVal("undef_"+x.Name(), x.Type())
	v.vals[x] = t
	v.note("value %s used before definition in %s (havocked)", x.Name(), v.fnName())
	return t
}

func (v *FnVC) setVal(x ssa.Value, s string) Term {
	so := v.S.SortOf(x.Type())
	// name intermediate values to keep terms small
	n := v.define(x.Name(), so, s)
	t := Term{S: n, Sort: so, T: x.Type()}
	v.vals[x] = t
	return t
}

// ---------- function analysis ----------

func (v *FnVC) analyzeLoops() {
	v.loops = map[*ssa.BasicBlock]*LoopInfo{}
	v.backEdge = map[[2]*ssa.BasicBlock]bool{}
	for _, b := range v.Fn.Blocks {
		for _, s := range b.Succs {
			if s.Dominates(b) {
				v.backEdge[[2]*ssa.BasicBlock{b, s}] = true
				li := v.loops[s]
				if li == nil {
					li = &LoopInfo{Header: s, Blocks: map[*ssa.BasicBlock]bool{s: true}, Ordinal: -1}
					v.loops[s] = li
				}
				// natural loop: nodes reaching b without passing s
				var stack []*ssa.BasicBlock
				if !li.Blocks[b] {
					li.Blocks[b] = true
					stack = append(stack, b)
				}
				for len(stack) > 0 {
					n := stack[len(stack)-1]
					stack = stack[:len(stack)-1]
					for _, p := range n.Preds {
						if !li.Blocks[p] {
							li.Blocks[p] = true
							stack = append(stack, p)
						}
					}
				}
			}
		}
	}
	// ordinals from the AST
	syn := v.Fn.Syntax()
	if syn == nil {
		return
	}
	var stmts []ast.Node
	var body ast.Node
	switch s := syn.(type) {
	case *ast.FuncDecl:
		body = s.Body
	case *ast.FuncLit:
		body = s.Body
	}
	if body == nil {
		return
	}
	ast.Inspect(body, func(n ast.Node) bool {
		switch n.(type) {
		case *ast.FuncLit:
			return false
		case *ast.ForStmt, *ast.RangeStmt:
			stmts = append(stmts, n)
		}
		return true
	})
	var unmatched []*LoopInfo
	unmatchedLo := map[*LoopInfo]token.Pos{}
	for _, li := range v.loops {
		lo, hi := token.Pos(0), token.Pos(0)
		for b := range li.Blocks {
			for _, ins := range b.Instrs {
				if _, ok := ins.(*ssa.DebugRef); ok {
					continue
				}
				if _, ok := ins.(*ssa.Phi); ok {
					continue // a phi carries the position of the variable's declaration
				}
				p := ins.Pos()
				if !p.IsValid() {
					continue
				}
				if lo == 0 || p < lo {
					lo = p
				}
				if p > hi {
					hi = p
				}
			}
		}
		best := -1
		for i, s := range stmts {
			if s.Pos() <= lo && hi <= s.End() {
				if best < 0 || (stmts[best].End()-stmts[best].Pos()) > (s.End()-s.Pos()) {
					best = i
				}
			}
		}
		if best >= 0 {
			li.Ordinal = best
			li.Stmt = stmts[best]
		} else {
			unmatched = append(unmatched, li)
			unmatchedLo[li] = lo
		}
	}
	// loops formed by goto (no for / range statement): numbered after the for / range statements, in source order
	sort.Slice(unmatched, func(a, b int) bool { return unmatchedLo[unmatched[a]] < unmatchedLo[unmatched[b]] })
	for k, li := range unmatched {
		li.Ordinal = len(stmts) + k
	}
}

// order returns blocks in reverse post-order ignoring back edges.
func (v *FnVC) order() []*ssa.BasicBlock {
	seen := map[*ssa.BasicBlock]bool{}
	var post []*ssa.BasicBlock
	var dfs func(b *ssa.BasicBlock)
	dfs = func(b *ssa.BasicBlock) {
		seen[b] = true
		for _, s := range b.Succs {
			if v.backEdge[[2]*ssa.BasicBlock{b, s}] || seen[s] {
				continue
			}
			dfs(s)
		}
		post = append(post, b)
	}
	dfs(v.Fn.Blocks[0])
	if v.Fn.Recover != nil && !seen[v.Fn.Recover] {
		// recover block is only reachable through panics; not modelled
	}
	for i, j := 0, len(post)-1; i < j; i, j = i+1, j-1 {
		post[i], post[j] = post[j], post[i]
	}
	return post
}

// loopModKeys computes heap keys possibly modified in a loop; all=true means everything.
func (v *FnVC) loopModKeys(li *LoopInfo) (keys map[string]bool, all bool) {
	keys = map[string]bool{}
	li.NonFresh = map[string]bool{}
	li.OldRefs = map[string][]ssa.Value{}
	li.ViewOnly = map[string]bool{}
	li.OldRefTerms = map[string][]string{}
	type pendingMap struct {
		keys []string
		fa   *ssa.FieldAddr
	}
	var pending []pendingMap
	defer func() {
		// maps updated in the loop that are loaded (inside the loop) from a field of a loop-invariant object: when the
		// loop does not write that field, the map is the one the field held before the loop, and only it changes
		for _, pm := range pending {
			stable := keys != nil
			for _, fk := range v.storeKeys(pm.fa) {
				if keys == nil || keys[fk] {
					stable = false
				}
			}
			base, okb := v.vals[pm.fa.X]
			if stable && okb && base.Sort == "Int" {
				stT := deref(pm.fa.X.Type())
				st, _ := structOf(stT)
				fk := v.fieldKey(stT, st.Field(pm.fa.Field))
				ref := fmt.Sprintf("(select %s %s)", v.heapGet(v.cur, fk), base.S)
				for _, k := range pm.keys {
					li.OldRefTerms[k] = append(li.OldRefTerms[k], ref)
				}
			} else {
				for _, k := range pm.keys {
					li.NonFresh[k] = true
				}
			}
		}
	}()
	outside := func(x ssa.Value) bool {
		switch y := x.(type) {
		case *ssa.Parameter, *ssa.FreeVar, *ssa.Global, *ssa.Const:
			return true
		case ssa.Instruction:
			return !li.Blocks[y.Block()]
		}
		return false
	}
	for b := range li.Blocks {
		for _, ins := range b.Instrs {
			switch i := ins.(type) {
			case *ssa.Store:
				fresh := v.rootAllocatedIn(i.Addr, li)
				var obj ssa.Value
				if fa, ok := i.Addr.(*ssa.FieldAddr); ok {
					if _, isPtr := fa.X.Type().Underlying().(*types.Pointer); isPtr && outside(fa.X) {
						if _, nested := fa.X.(*ssa.FieldAddr); !nested {
							if _, nested2 := fa.X.(*ssa.IndexAddr); !nested2 {
								obj = fa.X
							}
						}
					}
				}
				if al, isAlloc := i.Addr.(*ssa.Alloc); isAlloc && al.Heap && outside(al) {
					obj = al // a captured / address-taken variable's own cell
				}
				for _, k := range v.storeKeys(i.Addr) {
					keys[k] = true
					if fresh {
						continue
					}
					if obj != nil && (strings.HasPrefix(k, "F:") || strings.HasPrefix(k, "C:")) {
						li.OldRefs[k] = append(li.OldRefs[k], obj)
					} else {
						li.NonFresh[k] = true
					}
				}
			case *ssa.MapUpdate:
				if m, ok := i.Map.Type().Underlying().(*types.Map); ok {
					d, vl, l := v.mapKeys(m)
					keys[d], keys[vl], keys[l] = true, true, true
					if mk, isMk := i.Map.(*ssa.MakeMap); isMk && !li.Blocks[mk.Block()] {
						// a map created by this function before the loop: only that map changes
						for _, k := range []string{d, vl, l} {
							li.OldRefs[k] = append(li.OldRefs[k], mk)
						}
					} else if ld, isLd := i.Map.(*ssa.UnOp); isLd && ld.Op == token.MUL && fieldOfOutsidePtr(ld.X, outside) != nil {
						pending = append(pending, pendingMap{[]string{d, vl, l}, fieldOfOutsidePtr(ld.X, outside)})
					} else if !isMk {
						li.NonFresh[d], li.NonFresh[vl], li.NonFresh[l] = true, true, true
					}
				}
			case *ssa.Next:
				if k, ok := v.iterKeys[i.Iter]; ok {
					keys[k] = true
				}
			case *ssa.Send:
				keys[v.regKey("CH:len", "(Array Int Int)")] = true
			case *ssa.UnOp:
				if i.Op == token.ARROW {
					keys[v.regKey("CH:len", "(Array Int Int)")] = true
				}
			case *ssa.Select:
				keys[v.regKey("CH:len", "(Array Int Int)")] = true
			case *ssa.Defer:
				return nil, true
			case ssa.CallInstruction: // includes go statements: the callee's contract effect happens at the spawn
				if v.interiorArgKeys(i.Common(), li, keys, outside) {
					continue
				}
				ks, a := v.callModKeys(i.Common())
				if a {
					return nil, true
				}
				isAppend := false
				if bi, ok := i.Common().Value.(*ssa.Builtin); ok && bi.Name() == "append" {
					isAppend = true
				}
				refs := v.callModRefs(i.Common())
				for _, k := range ks {
					keys[k] = true
					if isAppend {
						continue
					}
					if r, ok := refs[k]; ok && r != nil && outside(r) {
						li.OldRefs[k] = append(li.OldRefs[k], r)
					} else {
						li.NonFresh[k] = true
					}
				}
			}
		}
	}
	return keys, false
}

// fieldOfOutsidePtr: addr is &p.f for a pointer p defined outside the loop (parameter, captured variable, earlier value).
func fieldOfOutsidePtr(addr ssa.Value, outside func(ssa.Value) bool) *ssa.FieldAddr {
	fa, ok := addr.(*ssa.FieldAddr)
	if !ok || !outside(fa.X) {
		return nil
	}
	if _, isPtr := fa.X.Type().Underlying().(*types.Pointer); !isPtr {
		return nil
	}
	switch fa.X.(type) {
	case *ssa.FieldAddr, *ssa.IndexAddr:
		return nil
	}
	if _, ok := structOf(deref(fa.X.Type())); !ok {
		return nil
	}
	return fa
}

// interiorArgKeys handles a call without contract and without effect on tracked state whose pointer arguments are all
// addresses of struct-typed fields / elements (interior pointers): the callee can change the enclosing storage (the
// container's key) and the view object materialised at the interior address, nothing else.
func (v *FnVC) interiorArgKeys(c *ssa.CallCommon, li *LoopInfo, keys map[string]bool, outside func(ssa.Value) bool) bool {
	if _, isB := c.Value.(*ssa.Builtin); isB {
		return false
	}
	name, fn := v.calleeName(c)
	if mc, ok := c.Value.(*ssa.MakeClosure); ok && !c.IsInvoke() {
		fn = mc.Fn.(*ssa.Function)
		name = v.W.FuncQualName(fn)
	}
	if name != "" && v.W.ContractFor(name) != nil {
		return false
	}
	if v.effectClass(name, fn, c) != effNone {
		return false
	}
	type acc struct {
		addr     ssa.Value
		el       types.Type
		interior bool
	}
	var accs []acc
	for _, a := range c.Args {
		p, ok := a.Type().Underlying().(*types.Pointer)
		if !ok {
			continue
		}
		switch a.(type) {
		case *ssa.FieldAddr, *ssa.IndexAddr:
			if _, isS := structOf(p.Elem()); !isS {
				return false
			}
			accs = append(accs, acc{a, p.Elem(), true})
		default:
			if !outside(a) {
				return false
			}
			accs = append(accs, acc{a, p.Elem(), false}) // a loop-invariant pointer: only its pointee changes
		}
	}
	if len(accs) == 0 {
		return false
	}
	for _, ac := range accs {
		if !ac.interior {
			for _, k := range v.storeKeysOfType(ac.el) {
				keys[k] = true
				if strings.HasPrefix(k, "F:") || strings.HasPrefix(k, "C:") {
					li.OldRefs[k] = append(li.OldRefs[k], ac.addr)
				} else {
					li.NonFresh[k] = true
				}
			}
			continue
		}
		fresh := v.rootAllocatedIn(ac.addr, li)
		var obj ssa.Value
		if fa, ok := ac.addr.(*ssa.FieldAddr); ok {
			if _, isPtr := fa.X.Type().Underlying().(*types.Pointer); isPtr && outside(fa.X) {
				switch fa.X.(type) {
				case *ssa.FieldAddr, *ssa.IndexAddr:
				default:
					obj = fa.X
				}
			}
		}
		for _, k := range v.storeKeys(ac.addr) {
			keys[k] = true
			if fresh {
				continue
			}
			if obj != nil && strings.HasPrefix(k, "F:") {
				li.OldRefs[k] = append(li.OldRefs[k], obj)
			} else {
				li.NonFresh[k] = true
			}
		}
		for _, k := range v.storeKeysOfType(ac.el) {
			keys[k] = true
			li.ViewOnly[k] = true
		}
	}
	return true
}

func (v *FnVC) localKey(a *ssa.Alloc) string {
	return v.regKey("L:"+a.Name(), v.S.SortOf(deref(a.Type())))
}

// rootAllocatedIn: the object written through addr is allocated inside the loop.
func (v *FnVC) rootAllocatedIn(addr ssa.Value, li *LoopInfo) bool {
	for {
		switch a := addr.(type) {
		case *ssa.FieldAddr:
			addr = a.X
			continue
		case *ssa.IndexAddr:
			if _, ok := a.X.Type().Underlying().(*types.Slice); ok {
				if mk, ok := a.X.(*ssa.MakeSlice); ok {
					return li.Blocks[mk.Block()]
				}
				return false
			}
			addr = a.X
			continue
		case *ssa.Alloc:
			return li.Blocks[a.Block()]
		}
		return false
	}
}

// storeKeys: heap keys a store through addr may change.
func (v *FnVC) storeKeys(addr ssa.Value) []string {
	switch a := addr.(type) {
	case *ssa.FieldAddr:
		// find root
		root := ssa.Value(a)
		var chain []*ssa.FieldAddr
		for {
			switch r := root.(type) {
			case *ssa.FieldAddr:
				chain = append(chain, r)
				root = r.X
				continue
			case *ssa.IndexAddr:
				return v.storeKeys(r)
			}
			break
		}
		top := chain[len(chain)-1]
		if a, ok := top.X.(*ssa.Alloc); ok && !a.Heap {
			return []string{v.localKey(a)}
		}
		st := deref(top.X.Type())
		if s, ok := structOf(st); ok {
			// if root is an IndexAddr into a slice of structs, it is an elem key
			return []string{v.fieldKey(st, s.Field(top.Field))}
		}
	case *ssa.IndexAddr:
		switch a.X.Type().Underlying().(type) {
		case *types.Slice:
			return []string{v.elemKey(a.X.Type().Underlying().(*types.Slice).Elem())}
		default:
			return v.storeKeys(a.X)
		}
	}
	if a, ok := addr.(*ssa.Alloc); ok && !a.Heap {
		return []string{v.localKey(a)}
	}
	// generic pointer
	el := deref(addr.Type())
	if s, ok := structOf(el); ok {
		var ks []string
		for i := 0; i < s.NumFields(); i++ {
			ks = append(ks, v.fieldKey(el, s.Field(i)))
		}
		return ks
	}
	return []string{v.cellKey(el)}
}

// ---------- main encoding ----------

func NewFnVC(w *World, fn *ssa.Function, c *FuncContract) *FnVC {
	v := &FnVC{W: w, Fn: fn, C: c, S: NewSorts(), vals: map[ssa.Value]Term{}, ptrs: map[ssa.Value]*Loc{}, tuples: map[ssa.Value][]Term{},
		reach: map[*ssa.BasicBlock]string{}, outSt: map[*ssa.BasicBlock]*State{}, edgeCond: map[[2]*ssa.BasicBlock]string{},
		heapSorts: map[string]string{}, heapInit: map[string]bool{}, counters: map[string]int{}, assumedCallees: map[string]bool{},
		recApps: map[string]bool{}, iterKeys: map[ssa.Value]string{}, implFacts: map[string]bool{}, closureBind: map[*ssa.Function]*ssa.MakeClosure{}}
	if c != nil {
		v.nopanic = c.NoPanic
	}
	return v
}

func (v *FnVC) Generate() (err error) {
	defer func() {
		if r := recover(); r != nil {
			if e, ok := r.(vcError); ok {
				err = fmt.Errorf("%s: %s", v.fnName(), string(e))
				return
			}
			panic(r)
		}
	}()
	fn := v.Fn
	if len(fn.Blocks) == 0 {
		return fmt.Errorf("%s: no body", v.fnName())
	}
	v.analyzeLoops()
	if v.LitProp != "" {
		v.litOrd = map[*ssa.Alloc]int{}
		v.findLiterals(v.LitProp)
	}
	// pre-register range iterators
	for _, b := range fn.Blocks {
		for _, ins := range b.Instrs {
			if r, ok := ins.(*ssa.Range); ok {
				switch r.X.Type().Underlying().(type) {
				case *types.Map:
					m := r.X.Type().Underlying().(*types.Map)
					v.iterKeys[r] = v.regKey("IT:"+r.Name(), fmt.Sprintf("(Array %s Bool)", v.S.SortOf(m.Key())))
				default:
					v.iterKeys[r] = v.regKey("IT:"+r.Name(), "Int")
				}
			}
		}
	}
	v.entry = &State{heap: map[string]string{}, epoch: 0, alloc: v.freshConst("alloc", "Int")}
	v.asserts = append(v.asserts, fmt.Sprintf("(> %s 0)", v.entry.alloc))
	// parameters
	for _, p := range fn.Params {
		t := v.havocVal("p_"+p.Name(), p.Type())
		v.vals[p] = t
		v.assumeFreshBound(t, v.entry)
	}
	for _, fvr := range fn.FreeVars {
		t := v.havocVal("fv_"+fvr.Name(), fvr.Type())
		v.vals[fvr] = t
		if _, isPtr := fvr.Type().Underlying().(*types.Pointer); isPtr {
			// a captured variable is always a valid cell
			v.asserts = append(v.asserts, fmt.Sprintf("(> %s 0)", t.S))
			el := deref(fvr.Type())
			if _, isS := structOf(el); !isS {
				for k, f2 := range fn.FreeVars {
					if f2 == fvr && stableFreeVar(fn, k) {
						v.stableCells = append(v.stableCells, stableCell{key: v.cellKey(el), ref: t.S, src: fvr, field: -1})
						v.note("captured variable %s is not written by any closure: kept across calls with unknown effects", fvr.Name())
					}
				}
			}
		}
	}
	blocks := v.order()
	for _, b := range blocks {
		v.encodeBlock(b)
	}
	v.atExit()
	v.flushRec()
	v.emitAxioms()
	v.flushRec()
	return nil
}

type vcError string

// conjuncts splits a contract expression at its top-level &&.
func conjuncts(e Expr) []Expr {
	if b, ok := e.(*EBinary); ok && b.Op == "&&" {
		return append(conjuncts(b.X), conjuncts(b.Y)...)
	}
	return []Expr{e}
}

// evalInvariant evaluates a loop invariant conjunct by conjunct. A conjunct that names an identifier which no longer
// exists in the function (a renamed or removed local) is dropped with a note: invariants are proof hints, a weaker
// invariant can only make obligations undecided, never discharge one wrongly. The same conjuncts are dropped where
// the invariant is assumed and where it is an obligation (same name resolution at the loop header).
func (v *FnVC) evalInvariant(c *Clause, env *Env) string {
	var parts []string
	for _, cj := range conjuncts(c.E) {
		f, ok := v.tryEvalBool(cj, env)
		if !ok {
			v.note("loop invariant conjunct dropped in %s (it names an identifier that does not exist in the function any more): %s", v.fnName(), cj.String())
			continue
		}
		parts = append(parts, f)
	}
	switch len(parts) {
	case 0:
		return "true"
	case 1:
		return parts[0]
	}
	return "(and " + strings.Join(parts, " ") + ")"
}

func (v *FnVC) fail(f string, a ...interface{}) {
	panic(vcError(fmt.Sprintf(f, a...)))
}

func (v *FnVC) assumeFreshBound(t Term, st *State) {
	if t.T == nil {
		return
	}
	switch t.T.Underlying().(type) {
	case *types.Pointer, *types.Map, *types.Chan:
		v.asserts = append(v.asserts, fmt.Sprintf("(< %s %s)", t.S, st.alloc))
	case *types.Slice:
		v.asserts = append(v.asserts, fmt.Sprintf("(< (sarr %s) %s)", t.S, st.alloc))
	}
}

func (v *FnVC) encodeBlock(b *ssa.BasicBlock) {
	v.curBlock = b
	// incoming edges
	var parts []mergePart
	var entryPreds []*ssa.BasicBlock
	for _, p := range b.Preds {
		if v.backEdge[[2]*ssa.BasicBlock{p, b}] {
			continue
		}
		if _, ok := v.reach[p]; !ok {
			continue // unreachable pred (e.g. recover)
		}
		entryPreds = append(entryPreds, p)
	}
	if b.Index == 0 {
		v.reach[b] = "true"
		v.cur = v.entry.clone()
		v.atEntry()
	} else {
		var conds []string
		for _, p := range entryPreds {
			c := v.edgeCond[[2]*ssa.BasicBlock{p, b}]
			conds = append(conds, c)
			parts = append(parts, mergePart{cond: c, st: v.outSt[p]})
		}
		if len(conds) == 0 {
			v.reach[b] = "false"
			v.cur = v.entry.clone()
		} else {
			r := "(or " + strings.Join(conds, " ") + ")"
			if len(conds) == 1 {
				r = conds[0]
			}
			v.reach[b] = v.define("reach_"+fmt.Sprint(b.Index), "Bool", r)
			v.cur = v.mergeStates(parts)
		}
	}
	li := v.loops[b]
	// phis
	idx := 0
	for ; idx < len(b.Instrs); idx++ {
		phi, ok := b.Instrs[idx].(*ssa.Phi)
		if !ok {
			break
		}
		if li != nil {
			continue // handled below
		}
		var t string
		first := true
		for i := len(b.Preds) - 1; i >= 0; i-- {
			p := b.Preds[i]
			if _, ok := v.reach[p]; !ok || v.backEdge[[2]*ssa.BasicBlock{p, b}] {
				continue
			}
			ev := v.val(phi.Edges[i]).S
			if first {
				t = ev
				first = false
			} else {
				t = fmt.Sprintf("(ite %s %s %s)", v.edgeCond[[2]*ssa.BasicBlock{p, b}], ev, t)
			}
		}
		if first {
			t = v.S.Zero(phi.Type()).S
		}
		v.setVal(phi, t)
	}
	if li != nil {
		v.loopHeader(b, li, entryPreds)
	}
	for ; idx < len(b.Instrs); idx++ {
		v.encodeInstr(b.Instrs[idx])
		if v.litAfter != nil {
			v.afterInstr(b.Instrs[idx])
		}
	}
	v.outSt[b] = v.cur
}

func (v *FnVC) loopHeader(b *ssa.BasicBlock, li *LoopInfo, entryPreds []*ssa.BasicBlock) {
	var invs []*Clause
	if v.C != nil && li.Ordinal >= 0 {
		invs = v.C.Loops[li.Ordinal]
	}
	// 1. establish invariants on entry edges
	var phis []*ssa.Phi
	for _, ins := range b.Instrs {
		if p, ok := ins.(*ssa.Phi); ok {
			phis = append(phis, p)
		} else {
			break
		}
	}
	entryVals := map[*ssa.Phi]Term{}
	for _, phi := range phis {
		var t string
		first := true
		for i := len(b.Preds) - 1; i >= 0; i-- {
			p := b.Preds[i]
			if _, ok := v.reach[p]; !ok || v.backEdge[[2]*ssa.BasicBlock{p, b}] {
				continue
			}
			ev := v.val(phi.Edges[i]).S
			if first {
				t = ev
				first = false
			} else {
				t = fmt.Sprintf("(ite %s %s %s)", v.edgeCond[[2]*ssa.BasicBlock{p, b}], ev, t)
			}
		}
		if first {
			t = v.S.Zero(phi.Type()).S
		}
		entryVals[phi] = Term{S: t, Sort: v.S.SortOf(phi.Type()), T: phi.Type()}
	}
	// initialise iterators created before the loop (ranges feeding this loop) is done at Range instr.
	for _, c := range invs {
		if c.Kind != "invariant" {
			continue
		}
		env := v.loopEnv(b, li, func(p *ssa.Phi) Term { return entryVals[p] })
		f := v.evalInvariant(c, env)
		o := v.oblige(fmt.Sprintf("loop%d-inv-entry", li.Ordinal), f, "invariant holds on loop entry: "+c.Text, b.Instrs[0].Pos())
		_ = o
	}
	// 2. havoc
	keys, all := v.loopModKeys(li)
	if all {
		// stable cells the loop body itself stores to do not keep their pre-loop value at the header
		skip := map[int]bool{}
		for idx, sc := range v.stableCells {
			for b := range li.Blocks {
				for _, ins := range b.Instrs {
					stI, ok := ins.(*ssa.Store)
					if !ok {
						continue
					}
					addr := stI.Addr
					fld := -1
					for {
						if fa, ok := addr.(*ssa.FieldAddr); ok {
							fld = fa.Field
							addr = fa.X
							continue
						}
						if ia, ok := addr.(*ssa.IndexAddr); ok {
							addr = ia.X
							continue
						}
						break
					}
					if addr == sc.src && (sc.field < 0 || fld == sc.field || fld < 0) {
						skip[idx] = true
					}
				}
			}
		}
		v.havocAllExcept(v.cur, skip)
		v.note("loop %d of %s: all heap havocked at header (unknown callee effects in body)", li.Ordinal, v.fnName())
	} else {
		var ks []string
		for k := range keys {
			ks = append(ks, k)
		}
		sort.Strings(ks)
		for _, k := range ks {
			pre := v.heapGet(v.cur, k)
			v.havocKey(v.cur, k)
			// keys that the loop only changes on objects it allocates itself keep their contents for all older objects
			if !li.NonFresh[k] && strings.HasPrefix(v.heapSorts[k], "(Array Int ") && !strings.HasPrefix(k, "L:") && !strings.HasPrefix(k, "IT:") {
				nw := v.cur.heap[k]
				excl := ""
				seen := map[string]bool{}
				for _, r := range li.OldRefs[k] {
					rv := v.val(r)
					rt := rv.S
					if rv.Sort == "Iface" {
						rt = fmt.Sprintf("(ival %s)", rv.S)
					}
					if !seen[rt] {
						seen[rt] = true
						excl += fmt.Sprintf(" (not (= a %s))", rt)
					}
				}
				for _, rt := range li.OldRefTerms[k] {
					if !seen[rt] {
						seen[rt] = true
						excl += fmt.Sprintf(" (not (= a %s))", rt)
					}
				}
				v.asserts = append(v.asserts, fmt.Sprintf("(forall ((a Int)) (! (=> (and (< a %s)%s) (= (select %s a) (select %s a))) :pattern ((select %s a))))", v.cur.alloc, excl, nw, pre, nw))
			}
		}
		// allocation counter grows
		na := v.freshConst("alloc", "Int")
		v.asserts = append(v.asserts, fmt.Sprintf("(>= %s %s)", na, v.cur.alloc))
		v.cur.alloc = na
	}
	for _, phi := range phis {
		t := v.havocVal(phi.Name()+"_"+phi.Comment, phi.Type())
		v.vals[phi] = t
		v.assumeFreshBound(t, v.cur)
		if phi.Comment == "rangeindex" {
			// Go's lowering of range-over-slice: the index starts at -1, is incremented and compared with the length
			// taken before the loop; -1 <= index < len is an invariant of that lowering
			v.assume(v.reach[b], fmt.Sprintf("(>= %s (- 1))", t.S))
			for _, ins := range b.Instrs {
				cmp, ok := ins.(*ssa.BinOp)
				if !ok || cmp.Op != token.LSS {
					continue
				}
				inc, ok := cmp.X.(*ssa.BinOp)
				if !ok || inc.Op != token.ADD || inc.X != ssa.Value(phi) {
					continue
				}
				v.assume(v.reach[b], fmt.Sprintf("(< %s %s)", t.S, v.val(cmp.Y).S))
			}
		}
	}
	// 3. assume invariants
	for _, c := range invs {
		if c.Kind != "invariant" {
			continue
		}
		env := v.loopEnv(b, li, nil)
		f := v.evalInvariant(c, env)
		// narrows what follows the header; a global assumption would make the entry obligations vacuous
		// whenever the invariant is contradictory
		v.narrow(f)
	}
	if v.hdrStates == nil {
		v.hdrStates = map[*ssa.BasicBlock]*State{}
	}
	v.hdrStates[b] = v.cur.clone()
}

// atBackEdge is called when block p jumps back to header h.
func (v *FnVC) atBackEdge(p, h *ssa.BasicBlock, cond string) {
	li := v.loops[h]
	var invs []*Clause
	if v.C != nil && li.Ordinal >= 0 {
		invs = v.C.Loops[li.Ordinal]
	}
	predIdx := -1
	for i, q := range h.Preds {
		if q == p {
			predIdx = i
		}
	}
	saveReach := v.reach[p]
	// guard is reach_p && cond
	g := cond
	for _, c := range invs {
		env := v.loopEnv(h, li, func(phi *ssa.Phi) Term { return v.val(phi.Edges[predIdx]) })
		switch c.Kind {
		case "invariant":
			f := v.evalInvariant(c, env)
			o := v.oblige(fmt.Sprintf("loop%d-inv-preserved", li.Ordinal), f, "invariant preserved by loop body: "+c.Text, h.Instrs[0].Pos())
			o.Guard = g
		case "decreases":
			after := v.evalTerm(c.E, env)
			hdrEnv := v.loopEnvAtHeader(h, li)
			before := v.evalTerm(c.E, hdrEnv)
			f := fmt.Sprintf("(and (< %s %s) (>= %s 0))", after.S, before.S, before.S)
			o := v.oblige(fmt.Sprintf("loop%d-decreases", li.Ordinal), f, "loop variant decreases and is bounded: "+c.Text, h.Instrs[0].Pos())
			o.Guard = g
		}
	}
	_ = saveReach
}

func (v *FnVC) edge(from, to *ssa.BasicBlock, cond string) {
	r := v.reach[from]
	c := r
	if cond != "true" {
		c = fmt.Sprintf("(and %s %s)", r, cond)
	}
	c = v.define(fmt.Sprintf("edge_%d_%d", from.Index, to.Index), "Bool", c)
	if v.backEdge[[2]*ssa.BasicBlock{from, to}] {
		v.atBackEdge(from, to, c)
		return
	}
	v.edgeCond[[2]*ssa.BasicBlock{from, to}] = c
}
