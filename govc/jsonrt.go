package main

import (
	"fmt"
	"go/types"
	"reflect"
	"strings"

	"golang.org/x/tools/go/ssa"
)

// The contracts treat writing a value with encoding/json and reading it back as the identity (the spool's metadata:
// decode(encode(v)) == v; assumption A-lib). That is false for a field tagged `omitempty` (an empty map or slice comes
// back nil) or `-` (dropped). jsonRoundTripRisk checks this side condition on the static type of the value handed to
// (*json.Encoder).Encode / json.Marshal in a function under contract; the caller turns a hit into an obligation
// (kind json-roundtrip) that cannot be discharged.
func jsonRoundTripRisk(c *ssa.CallCommon, module string) string {
	sf := c.StaticCallee()
	if sf == nil || sf.Pkg == nil || sf.Pkg.Pkg.Path() != "encoding/json" {
		return ""
	}
	var arg ssa.Value
	switch sf.Name() {
	case "Encode":
		if len(c.Args) == 2 {
			arg = c.Args[1]
		}
	case "Marshal", "MarshalIndent":
		if len(c.Args) >= 1 {
			arg = c.Args[0]
		}
	}
	if arg == nil {
		return ""
	}
	if mi, ok := arg.(*ssa.MakeInterface); ok {
		arg = mi.X
	}
	seen := map[types.Type]bool{}
	var walk func(t types.Type, path string, depth int) string
	walk = func(t types.Type, path string, depth int) string {
		if depth > 6 || seen[t] {
			return ""
		}
		seen[t] = true
		switch u := t.Underlying().(type) {
		case *types.Pointer:
			return walk(u.Elem(), path, depth+1)
		case *types.Slice:
			return walk(u.Elem(), path+"[]", depth+1)
		case *types.Array:
			return walk(u.Elem(), path+"[]", depth+1)
		case *types.Map:
			return walk(u.Elem(), path+"[]", depth+1)
		case *types.Struct:
			if n, ok := types.Unalias(t).(*types.Named); ok {
				if n.Obj().Pkg() == nil || !strings.HasPrefix(n.Obj().Pkg().Path(), module) {
					return "" // library types marshal themselves
				}
			}
			for i := 0; i < u.NumFields(); i++ {
				f := u.Field(i)
				if !f.Exported() {
					continue
				}
				tag := reflect.StructTag(u.Tag(i)).Get("json")
				parts := strings.Split(tag, ",")
				if parts[0] == "-" && len(parts) == 1 {
					return fmt.Sprintf("field %s.%s is tagged json:\"-\" (dropped when written)", path, f.Name())
				}
				for _, p := range parts[1:] {
					if p == "omitempty" || p == "omitzero" {
						return fmt.Sprintf("field %s.%s is tagged %s (an empty value is not written and comes back as nil / zero)", path, f.Name(), p)
					}
				}
				if w := walk(f.Type(), path+"."+f.Name(), depth+1); w != "" {
					return w
				}
			}
		}
		return ""
	}
	return walk(arg.Type(), typeShort(arg.Type()), 0)
}

func typeShort(t types.Type) string {
	s := t.String()
	if i := strings.LastIndex(s, "/"); i >= 0 {
		s = s[i+1:]
	}
	return strings.TrimPrefix(s, "*")
}
