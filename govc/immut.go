package main

// Init-only fields: an unexported struct field of a type defined in a loaded package that is never written except
// while the object is being constructed (composite literal) keeps its value in every pre-existing object across
// calls with unknown effects. This is a whole-package syntactic fact (unexported fields cannot be written from other
// packages; reflection and unsafe are not used on these types).

import (
	"fmt"
	"os"
	"go/types"
	"sync"

	"golang.org/x/tools/go/ssa"
	"golang.org/x/tools/go/ssa/ssautil"
)

var initOnlyOnce sync.Once

func (w *World) computeInitOnly() {
	w.mutableField = map[string]bool{}
	w.scannedPkg = map[string]bool{}
	for path := range w.SSAPkgs {
		w.scannedPkg[path] = true
	}
	markAll := func(t types.Type) {
		if s, ok := structOf(t); ok {
			for i := 0; i < s.NumFields(); i++ {
				w.mutableField[typeKey(t)+"."+s.Field(i).Name()] = true
			}
		}
	}
	// stores that initialise a freshly allocated object before its address is used for anything else
	initStores := map[*ssa.Store]bool{}
	for fn := range ssautil.AllFunctions(w.Prog) {
		for _, b := range fn.Blocks {
			for idx, ins := range b.Instrs {
				al, ok := ins.(*ssa.Alloc)
				if !ok {
					continue
				}
				fas := map[ssa.Value]bool{}
			scan:
				for _, nx := range b.Instrs[idx+1:] {
					switch x := nx.(type) {
					case *ssa.DebugRef:
						continue
					case *ssa.FieldAddr:
						if x.X == ssa.Value(al) {
							fas[x] = true
							continue
						}
					case *ssa.Store:
						if fas[x.Addr] && x.Val != ssa.Value(al) {
							initStores[x] = true
							continue
						}
					}
					for _, op := range nx.Operands(nil) {
						if *op == ssa.Value(al) {
							break scan // the object's address is used: construction is over
						}
					}
				}
			}
		}
	}
	// a field whose address escapes (passed to a call, stored, captured) can be written through that pointer
	for fn := range ssautil.AllFunctions(w.Prog) {
		for _, b := range fn.Blocks {
			for _, ins := range b.Instrs {
				fa, ok := ins.(*ssa.FieldAddr)
				if !ok || fa.Referrers() == nil {
					continue
				}
				base := deref(fa.X.Type())
				_, isS := structOf(base)
				if !isS {
					continue
				}
				for _, ref := range *fa.Referrers() {
					switch r := ref.(type) {
					case *ssa.Store:
						if r.Addr == ssa.Value(fa) && r.Val != ssa.Value(fa) {
							continue
						}
					case *ssa.UnOp:
						continue
					case *ssa.FieldAddr, *ssa.IndexAddr, *ssa.DebugRef:
						continue // nested accesses are examined on their own (a write below marks the outer field too)
					}
					// the field and every enclosing by-value field up the chain
					cur := fa
					for {
						cb := deref(cur.X.Type())
						cs, isCS := structOf(cb)
						if !isCS {
							break
						}
						w.mutableField[typeKey(cb)+"."+cs.Field(cur.Field).Name()] = true
						next, nested := cur.X.(*ssa.FieldAddr)
						if !nested {
							break
						}
						cur = next
					}
				}
			}
		}
	}
	for fn := range ssautil.AllFunctions(w.Prog) {
		for _, b := range fn.Blocks {
			for idx, ins := range b.Instrs {
				st, ok := ins.(*ssa.Store)
				if !ok {
					continue
				}
				switch a := st.Addr.(type) {
				case *ssa.FieldAddr:
					// walk to the outermost struct
					cur := a
					for {
						base := deref(cur.X.Type())
						s, isS := structOf(base)
						if !isS {
							break
						}
						if al, isAlloc := cur.X.(*ssa.Alloc); isAlloc && (al.Comment == "complit" || initStores[st]) {
							break // construction
						}
						if os.Getenv("GOVC_DEBUG_IMMUT") != "" {
							fmt.Fprintf(os.Stderr, "immut field %s.%s by %s in %s\n", typeKey(base), s.Field(cur.Field).Name(), st, fn)
						}
						w.mutableField[typeKey(base)+"."+s.Field(cur.Field).Name()] = true
						next, nested := cur.X.(*ssa.FieldAddr)
						if !nested {
							break
						}
						cur = next
					}
				default:
					el := deref(st.Addr.Type())
					if _, isS := structOf(el); !isS {
						continue
					}
					// whole-struct store: construction only for the pattern  *x = *complit  right after x's allocation
					if al, isAlloc := st.Addr.(*ssa.Alloc); isAlloc && al.Block() == b {
						if ld, isLoad := st.Val.(*ssa.UnOp); isLoad {
							if src, isA := ld.X.(*ssa.Alloc); isA && src.Comment == "complit" {
								first := true
								for _, prev := range b.Instrs[:idx] {
									if _, isDbg := prev.(*ssa.DebugRef); isDbg {
										continue
									}
									for _, op := range prev.Operands(nil) {
										if *op == ssa.Value(al) {
											first = false
										}
									}
								}
								if first {
									continue
								}
							}
						}
						if _, isParamCopy := st.Val.(*ssa.Parameter); isParamCopy {
							continue // spill of a by-value parameter into its local
						}
					}
					if os.Getenv("GOVC_DEBUG_IMMUT") != "" {
						fmt.Fprintf(os.Stderr, "immut markAll %s by %s in %s\n", typeKey(el), st, fn)
					}
					markAll(el)
				}
			}
		}
	}
}

// IsInitOnly reports whether the field behind a heap key "F:<type>.<field>" is init-only.
func (w *World) IsInitOnly(st types.Type, f *types.Var) bool {
	if f.Exported() || f.Pkg() == nil || f.Embedded() {
		return false
	}
	w.initOnlyMu.Do(w.computeInitOnly)
	if os.Getenv("GOVC_DEBUG_IMMUT") != "" {
		fmt.Fprintf(os.Stderr, "immut %s.%s scanned=%v mutable=%v\n", typeKey(st), f.Name(), w.scannedPkg[f.Pkg().Path()], w.mutableField[typeKey(st)+"."+f.Name()])
	}
	if !w.scannedPkg[f.Pkg().Path()] {
		return false
	}
	return !w.mutableField[typeKey(st)+"."+f.Name()]
}

// ---------- captured variables that no closure writes ----------
//
// A local variable captured by closures lives in a heap cell. When neither a closure (transitively) stores to it nor
// its address is used for anything but loads, stores by the declaring function, captures and debug references, the
// cell can only be written by the declaring function's own Store instructions. Its content therefore survives calls
// with unknown effects, both in the declaring function and inside the closures.

// cellWrittenByClosure: some closure below fn stores to (or leaks the address of) the free variable bound to index k.
func closureWrites(fn *ssa.Function, fvIdx int, depth int) bool {
	if depth > 8 || fvIdx >= len(fn.FreeVars) {
		return true
	}
	fv := fn.FreeVars[fvIdx]
	refs := fv.Referrers()
	if refs == nil {
		return false
	}
	for _, r := range *refs {
		switch x := r.(type) {
		case *ssa.DebugRef:
		case *ssa.UnOp: // load
		case *ssa.FieldAddr, *ssa.IndexAddr:
			// interior access of a captured struct/array: contents are tracked as fields, not as a cell
		case *ssa.MakeClosure:
			for k, b := range x.Bindings {
				if b == ssa.Value(fv) {
					if closureWrites(x.Fn.(*ssa.Function), k, depth+1) {
						return true
					}
				}
			}
		default:
			return true // store, call argument, ...
		}
	}
	return false
}

// stableLocal: heap-allocated local whose cell is written only by the declaring function's own stores.
func stableLocal(al *ssa.Alloc) bool {
	refs := al.Referrers()
	if refs == nil {
		return true
	}
	for _, r := range *refs {
		switch x := r.(type) {
		case *ssa.DebugRef, *ssa.UnOp, *ssa.FieldAddr, *ssa.IndexAddr:
		case *ssa.Store:
			if x.Addr != ssa.Value(al) {
				return false // the address itself is stored somewhere
			}
		case *ssa.MakeClosure:
			for k, b := range x.Bindings {
				if b == ssa.Value(al) && closureWrites(x.Fn.(*ssa.Function), k, 0) {
					return false
				}
			}
		default:
			return false
		}
	}
	return true
}

// stableFreeVar: free variable of fn that no closure anywhere writes: follow the binding chain to the declaring Alloc.
func stableFreeVar(fn *ssa.Function, idx int) bool {
	parent := fn.Parent()
	if parent == nil {
		return false
	}
	for _, b := range parent.Blocks {
		for _, ins := range b.Instrs {
			mc, ok := ins.(*ssa.MakeClosure)
			if !ok || mc.Fn != ssa.Value(fn) || idx >= len(mc.Bindings) {
				continue
			}
			switch src := mc.Bindings[idx].(type) {
			case *ssa.Alloc:
				return stableLocal(src)
			case *ssa.FreeVar:
				for k, pf := range parent.FreeVars {
					if pf == src {
						return stableFreeVar(parent, k)
					}
				}
			}
			return false
		}
	}
	return false
}

// unescapedAlloc: a heap-allocated struct variable whose address is used only to read and write its own fields (and
// finally returned): no callee can reach it, so its fields survive calls with unknown effects.
func unescapedAlloc(al *ssa.Alloc) bool {
	refs := al.Referrers()
	if refs == nil {
		return true
	}
	var interiorOK func(v ssa.Value, depth int) bool
	interiorOK = func(v ssa.Value, depth int) bool {
		if depth > 6 {
			return false
		}
		rs := v.Referrers()
		if rs == nil {
			return true
		}
		for _, r := range *rs {
			switch x := r.(type) {
			case *ssa.DebugRef, *ssa.UnOp:
			case *ssa.Store:
				if x.Addr != v {
					return false
				}
			case *ssa.FieldAddr:
				if !interiorOK(x, depth+1) {
					return false
				}
			case *ssa.IndexAddr:
				if x.X != v || !interiorOK(x, depth+1) {
					return false
				}
			default:
				return false
			}
		}
		return true
	}
	for _, r := range *refs {
		switch x := r.(type) {
		case *ssa.DebugRef, *ssa.UnOp, *ssa.Return:
		case *ssa.Store:
			if x.Addr != ssa.Value(al) {
				return false
			}
		case *ssa.FieldAddr:
			if !interiorOK(x, 0) {
				return false
			}
		default:
			return false
		}
	}
	return true
}
