package main

// Init-only fields: an unexported struct field of a type defined in a loaded package that is never written except
// while the object is being constructed (composite literal) keeps its value in every pre-existing object across
// calls with unknown effects. This is a whole-package syntactic fact (unexported fields cannot be written from other
// packages; reflection and unsafe are not used on these types).

import (
	"fmt"
	"os"
	"go/types"
	"sync"

	"golang.org/x/tools/go/ssa"
	"golang.org/x/tools/go/ssa/ssautil"
)

var initOnlyOnce sync.Once

func (w *World) computeInitOnly() {
	w.mutableField = map[string]bool{}
	w.scannedPkg = map[string]bool{}
	for path := range w.SSAPkgs {
		w.scannedPkg[path] = true
	}
	markAll := func(t types.Type) {
		if s, ok := structOf(t); ok {
			for i := 0; i < s.NumFields(); i++ {
				w.mutableField[typeKey(t)+"."+s.Field(i).Name()] = true
			}
		}
	}
	// stores that initialise a freshly allocated object before its address is used for anything else
	initStores := map[*ssa.Store]bool{}
	for fn := range ssautil.AllFunctions(w.Prog) {
		for _, b := range fn.Blocks {
			for idx, ins := range b.Instrs {
				al, ok := ins.(*ssa.Alloc)
				if !ok {
					continue
				}
				fas := map[ssa.Value]bool{}
			scan:
				for _, nx := range b.Instrs[idx+1:] {
					switch x := nx.(type) {
					case *ssa.DebugRef:
						continue
					case *ssa.FieldAddr:
						if x.X == ssa.Value(al) {
							fas[x] = true
							continue
						}
					case *ssa.Store:
						if fas[x.Addr] && x.Val != ssa.Value(al) {
							initStores[x] = true
							continue
						}
					}
					for _, op := range nx.Operands(nil) {
						if *op == ssa.Value(al) {
							break scan // the object's address is used: construction is over
						}
					}
				}
			}
		}
	}
	// a field whose address escapes (passed to a call, stored, captured) can be written through that pointer
	for fn := range ssautil.AllFunctions(w.Prog) {
		for _, b := range fn.Blocks {
			for _, ins := range b.Instrs {
				fa, ok := ins.(*ssa.FieldAddr)
				if !ok || fa.Referrers() == nil {
					continue
				}
				base := deref(fa.X.Type())
				_, isS := structOf(base)
				if !isS {
					continue
				}
				for _, ref := range *fa.Referrers() {
					switch r := ref.(type) {
					case *ssa.Store:
						if r.Addr == ssa.Value(fa) && r.Val != ssa.Value(fa) {
							continue
						}
					case *ssa.UnOp:
						continue
					case *ssa.FieldAddr, *ssa.IndexAddr, *ssa.DebugRef:
						continue // nested accesses are examined on their own (a write below marks the outer field too)
					}
					// the field and every enclosing by-value field up the chain
					cur := fa
					for {
						cb := deref(cur.X.Type())
						cs, isCS := structOf(cb)
						if !isCS {
							break
						}
						w.mutableField[typeKey(cb)+"."+cs.Field(cur.Field).Name()] = true
						next, nested := cur.X.(*ssa.FieldAddr)
						if !nested {
							break
						}
						cur = next
					}
				}
			}
		}
	}
	for fn := range ssautil.AllFunctions(w.Prog) {
		for _, b := range fn.Blocks {
			for idx, ins := range b.Instrs {
				st, ok := ins.(*ssa.Store)
				if !ok {
					continue
				}
				switch a := st.Addr.(type) {
				case *ssa.FieldAddr:
					// walk to the outermost struct
					cur := a
					for {
						base := deref(cur.X.Type())
						s, isS := structOf(base)
						if !isS {
							break
						}
						if al, isAlloc := cur.X.(*ssa.Alloc); isAlloc && (al.Comment == "complit" || initStores[st]) {
							break // construction
						}
						if os.Getenv("GOVC_DEBUG_IMMUT") != "" {
							fmt.Fprintf(os.Stderr, "immut field %s.%s by %s in %s\n", typeKey(base), s.Field(cur.Field).Name(), st, fn)
						}
						w.mutableField[typeKey(base)+"."+s.Field(cur.Field).Name()] = true
						next, nested := cur.X.(*ssa.FieldAddr)
						if !nested {
							break
						}
						cur = next
					}
				default:
					el := deref(st.Addr.Type())
					if _, isS := structOf(el); !isS {
						continue
					}
					// whole-struct store: construction only for the pattern  *x = *complit  right after x's allocation
					if al, isAlloc := st.Addr.(*ssa.Alloc); isAlloc && al.Block() == b {
						if ld, isLoad := st.Val.(*ssa.UnOp); isLoad {
							if src, isA := ld.X.(*ssa.Alloc); isA && src.Comment == "complit" {
								first := true
								for _, prev := range b.Instrs[:idx] {
									if _, isDbg := prev.(*ssa.DebugRef); isDbg {
										continue
									}
									for _, op := range prev.Operands(nil) {
										if *op == ssa.Value(al) {
											first = false
										}
									}
								}
								if first {
									continue
								}
							}
						}
						if _, isParamCopy := st.Val.(*ssa.Parameter); isParamCopy {
							continue // spill of a by-value parameter into its local
						}
					}
					if os.Getenv("GOVC_DEBUG_IMMUT") != "" {
						fmt.Fprintf(os.Stderr, "immut markAll %s by %s in %s\n", typeKey(el), st, fn)
					}
					markAll(el)
				}
			}
		}
	}
}

// IsInitOnly reports whether the field behind a heap key "F:<type>.<field>" is init-only.
func (w *World) IsInitOnly(st types.Type, f *types.Var) bool {
	if f.Exported() || f.Pkg() == nil || f.Embedded() {
		return false
	}
	w.initOnlyMu.Do(w.computeInitOnly)
	if os.Getenv("GOVC_DEBUG_IMMUT") != "" {
		fmt.Fprintf(os.Stderr, "immut %s.%s scanned=%v mutable=%v\n", typeKey(st), f.Name(), w.scannedPkg[f.Pkg().Path()], w.mutableField[typeKey(st)+"."+f.Name()])
	}
	if !w.scannedPkg[f.Pkg().Path()] {
		return false
	}
	return !w.mutableField[typeKey(st)+"."+f.Name()]
}
