package main

import (
	"go/types"
	"strings"

	"golang.org/x/tools/go/ssa"
)

// obviouslyPure: a conservative syntactic check on the SSA body of an in-module function that has no contract - it
// writes nothing but its own non-escaping locals, and calls only builtins, functions of dependencies that take no
// callback (which the engine already treats as having no effect on tracked state), methods of external interfaces,
// and in-module functions that are obviously pure themselves. Such a callee is modelled as "result unknown, tracked
// state untouched" instead of "all tracked heap havocked", so that extracting a pure helper out of a function under
// contract does not break the caller's frame. Anything else keeps the conservative treatment.
func (w *World) obviouslyPure(fn *ssa.Function) bool {
	if w.pureCache == nil {
		w.pureCache = map[*ssa.Function]int{}
	}
	return w.pureRec(fn, 0)
}

func (w *World) pureRec(fn *ssa.Function, depth int) bool {
	if fn == nil || len(fn.Blocks) == 0 || depth > 4 {
		return false
	}
	switch w.pureCache[fn] {
	case 1:
		return true
	case 2, 3: // impure, or in progress (recursion): not pure
		return false
	}
	w.pureCache[fn] = 3
	ok := w.pureBody(fn, depth)
	if ok {
		w.pureCache[fn] = 1
	} else {
		w.pureCache[fn] = 2
	}
	return ok
}

func (w *World) pureBody(fn *ssa.Function, depth int) bool {
	inModule := func(p *ssa.Package) bool { return p != nil && strings.HasPrefix(p.Pkg.Path(), w.Module) }
	// local allocations that never escape: only used as the address of loads/stores/field or index addressing
	var localRoot func(x ssa.Value) bool
	localRoot = func(x ssa.Value) bool {
		switch y := x.(type) {
		case *ssa.Alloc:
			return !y.Heap
		case *ssa.FieldAddr:
			return localRoot(y.X)
		case *ssa.IndexAddr:
			if _, isPtr := y.X.Type().Underlying().(*types.Pointer); isPtr {
				return localRoot(y.X)
			}
			return false
		}
		return false
	}
	for _, b := range fn.Blocks {
		for _, in := range b.Instrs {
			switch i := in.(type) {
			case *ssa.Store:
				if !localRoot(i.Addr) {
					return false
				}
			case *ssa.MapUpdate, *ssa.Send, *ssa.Go, *ssa.Defer, *ssa.Select, *ssa.Panic, *ssa.RunDefers, *ssa.MakeClosure:
				return false
			case *ssa.Call:
				c := i.Common()
				if bi, ok := c.Value.(*ssa.Builtin); ok {
					switch bi.Name() {
					case "len", "cap", "min", "max", "string", "real", "imag", "complex":
						continue
					}
					return false // append/copy/delete/close/... write memory that may be shared
				}
				if c.IsInvoke() {
					n, ok := types.Unalias(c.Value.Type()).(*types.Named)
					if ok && (n.Obj().Pkg() == nil || !strings.HasPrefix(n.Obj().Pkg().Path(), w.Module)) {
						continue
					}
					return false
				}
				sf := c.StaticCallee()
				if sf == nil {
					return false
				}
				for _, a := range c.Args {
					if _, isFn := a.Type().Underlying().(*types.Signature); isFn {
						return false
					}
					if _, isPtr := a.Type().Underlying().(*types.Pointer); isPtr {
						return false
					}
				}
				if sf.Pkg != nil && !inModule(sf.Pkg) {
					continue
				}
				if !w.pureRec(sf, depth+1) {
					return false
				}
			}
		}
	}
	return true
}
