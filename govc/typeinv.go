package main

// Type invariants: assumed for values reachable from parameters / callee results, asserted where a composite
// literal of the type is completed ("literal scan") and where a value of the type is returned.

import (
	"fmt"
	"go/ast"
	"go/token"
	"go/types"
	"sort"
	"strings"

	"golang.org/x/tools/go/ssa"
)

// typeInvsFor returns the invariants declared for type t (value type).
func (w *World) typeInvsFor(t types.Type) []*TypeInv {
	if t == nil {
		return nil
	}
	key := typeKey(t)
	return w.typeInvs[key]
}

func (w *World) indexTypeInvs() {
	w.typeInvs = map[string][]*TypeInv{}
	var names []string
	for n := range w.Files {
		names = append(names, n)
	}
	sort.Strings(names)
	for _, n := range names {
		cf := w.Files[n]
		for _, ti := range cf.TypeInvs {
			t, _ := w.resolveTypeIn(ti.Type, cf)
			if t == nil {
				continue
			}
			w.typeInvs[typeKey(t)] = append(w.typeInvs[typeKey(t)], ti)
		}
	}
}

func (v *FnVC) typeInvFormula(ti *TypeInv, self Term, env *Env) string {
	ne := &Env{v: v, vars: map[string]Term{"self": self}, st: env.st, old: env.old, pkg: v.W.PkgTypes(ti.Pkg)}
	return v.evalBool(ti.E, ne)
}

// structValueOf turns a term of type T or *T (T with invariant) into the struct value.
func (v *FnVC) invSubject(t Term, env *Env) (Term, []*TypeInv, string) {
	if t.T == nil {
		return Term{}, nil, ""
	}
	if p, ok := t.T.Underlying().(*types.Pointer); ok {
		invs := v.W.typeInvsFor(p.Elem())
		if len(invs) == 0 {
			return Term{}, nil, ""
		}
		val := v.load(env.st, v.locFromPtr(t.S, p.Elem()))
		return val, invs, fmt.Sprintf("(not (= %s 0))", t.S)
	}
	invs := v.W.typeInvsFor(t.T)
	if len(invs) == 0 {
		return Term{}, nil, ""
	}
	return t, invs, "true"
}

func (v *FnVC) assumeTypeInv(t Term, env *Env, depth int) { v.assumeTypeInvG(t, env, depth, "true") }

func (v *FnVC) assumeTypeInvG(t Term, env *Env, depth int, g string) {
	if t.T != nil && depth > 0 {
		if st, ok := t.T.Underlying().(*types.Struct); ok && len(v.W.typeInvsFor(t.T)) == 0 {
			so := v.S.SortOf(t.T)
			for i := 0; i < st.NumFields(); i++ {
				f := st.Field(i)
				switch f.Type().Underlying().(type) {
				case *types.Pointer, *types.Interface:
					ft := Term{S: fmt.Sprintf("(%s__%s %s)", so, fieldAcc(st, i), t.S), Sort: v.S.SortOf(f.Type()), T: f.Type()}
					v.assumeTypeInvG(ft, env, depth-1, g)
				}
			}
			return
		}
	}
	if t.Sort == "Iface" {
		// dynamic type with an invariant: assumed for each candidate type
		for key, invs := range v.W.typeInvs {
			_ = key
			for _, ti := range invs {
				tt, _ := v.W.resolveTypeIn(ti.Type, v.W.Files[ti.Pkg])
				if tt == nil {
					continue
				}
				pt := types.NewPointer(tt)
				tag := v.tagOf(pt)
				v.implTagFacts(pt)
				val := v.load(env.st, v.locFromPtr(fmt.Sprintf("(ival %s)", t.S), tt))
				f := v.typeInvFormula(ti, val, env)
				v.assumeOrdered(g, fmt.Sprintf("(=> (= (itag %s) %d) %s)", t.S, tag, f))
			}
		}
		return
	}
	val, invs, nn := v.invSubject(t, env)
	for _, ti := range invs {
		f := v.typeInvFormula(ti, val, env)
		v.assumeOrdered(g, fmt.Sprintf("(=> %s %s)", nn, f))
	}
}

func (v *FnVC) checkTypeInv(t Term, env *Env, what string, p token.Pos) {
	if v.C == nil {
		return
	}
	if t.Sort == "Iface" {
		for _, invs := range v.W.typeInvs {
			for _, ti := range invs {
				if !hasAnyProp(ti.Props, v.C.Props) {
					continue
				}
				tt, _ := v.W.resolveTypeIn(ti.Type, v.W.Files[ti.Pkg])
				if tt == nil {
					continue
				}
				pt := types.NewPointer(tt)
				tag := v.tagOf(pt)
				v.implTagFacts(pt)
				val := v.load(env.st, v.locFromPtr(fmt.Sprintf("(ival %s)", t.S), tt))
				f := v.typeInvFormula(ti, val, env)
				o := v.oblige("typeinv-"+what, fmt.Sprintf("(=> (= (itag %s) %d) %s)", t.S, tag, f), fmt.Sprintf("%s of dynamic type *%s satisfies its invariant: %s", what, ti.Type, ti.Text), p)
				_ = o
			}
		}
		return
	}
	val, invs, nn := v.invSubject(t, env)
	for _, ti := range invs {
		if !hasAnyProp(ti.Props, v.C.Props) {
			continue
		}
		f := v.typeInvFormula(ti, val, env)
		v.oblige("typeinv-"+what, fmt.Sprintf("(=> %s %s)", nn, f), fmt.Sprintf("%s satisfies the invariant of %s: %s", what, ti.Type, ti.Text), p)
	}
}

func hasAnyProp(a, b []string) bool {
	if len(a) == 0 {
		return true
	}
	for _, x := range a {
		for _, y := range b {
			if x == y {
				return true
			}
		}
	}
	return false
}

// findLiterals locates composite literals of invariant-carrying types in the function and the instruction
// after which each literal is complete.
func (v *FnVC) findLiterals(prop string) {
	v.litAfter = map[ssa.Instruction][]*ssa.Alloc{}
	syn := v.Fn.Syntax()
	if syn == nil {
		return
	}
	// composite literal ranges
	type rng struct{ lo, hi token.Pos }
	var lits []rng
	ast.Inspect(syn, func(n ast.Node) bool {
		if cl, ok := n.(*ast.CompositeLit); ok {
			lits = append(lits, rng{cl.Pos(), cl.End()})
		}
		if fl, ok := n.(*ast.FuncLit); ok && n != syn {
			_ = fl
			return false
		}
		return true
	})
	order := map[ssa.Instruction]int{}
	n := 0
	for _, b := range v.order() {
		for _, ins := range b.Instrs {
			order[ins] = n
			n++
		}
	}
	var allocs []*ssa.Alloc
	for _, b := range v.Fn.Blocks {
		for _, ins := range b.Instrs {
			a, ok := ins.(*ssa.Alloc)
			if !ok || a.Comment != "complit" {
				continue
			}
			invs := v.W.typeInvsFor(deref(a.Type()))
			use := false
			for _, ti := range invs {
				if hasProp(ti.Props, prop) || len(ti.Props) == 0 {
					use = true
				}
			}
			if use {
				allocs = append(allocs, a)
			}
		}
	}
	sort.Slice(allocs, func(i, j int) bool { return allocs[i].Pos() < allocs[j].Pos() })
	for k, a := range allocs {
		// smallest literal range containing the alloc position
		var best *rng
		for i := range lits {
			r := &lits[i]
			if r.lo <= a.Pos() && a.Pos() < r.hi {
				if best == nil || (r.hi-r.lo) < (best.hi-best.lo) {
					best = r
				}
			}
		}
		last := ssa.Instruction(a)
		for _, ref := range *a.Referrers() {
			fa, ok := ref.(*ssa.FieldAddr)
			if !ok {
				continue
			}
			for _, r2 := range *fa.Referrers() {
				st, ok := r2.(*ssa.Store)
				if !ok || st.Addr != fa {
					continue
				}
				if best != nil && !(best.lo <= st.Pos() && st.Pos() < best.hi) && st.Pos().IsValid() {
					continue
				}
				if order[st] > order[last] {
					last = st
				}
			}
		}
		v.litAfter[last] = append(v.litAfter[last], a)
		v.litOrd[a] = k
	}
}

func (v *FnVC) afterInstr(ins ssa.Instruction) {
	for _, a := range v.litAfter[ins] {
		el := deref(a.Type())
		val := v.load(v.cur, v.locOf(a))
		env := v.baseEnv()
		for _, ti := range v.W.typeInvsFor(el) {
			f := v.typeInvFormula(ti, val, env)
			o := v.oblige("literal", f, fmt.Sprintf("composite literal of %s satisfies: %s", ti.Type, ti.Text), a.Pos())
			o.Name = fmt.Sprintf("%s/literal:%s#%d", v.fnName(), strings.TrimPrefix(ti.Type, "*"), v.litOrd[a])
		}
	}
}

// assumeInvOnLoad: a pointer (or interface) loaded from memory that refers to an object which existed at function
// entry satisfies its type invariant (evaluated in the entry state, or in the current state after a havoc of the
// whole heap by an unknown callee).
func (v *FnVC) assumeInvOnLoad(t Term) {
	if t.T == nil || len(v.W.typeInvs) == 0 {
		return
	}
	st := v.entry
	if v.cur.epoch != v.entry.epoch {
		st = v.cur
	}
	env := &Env{v: v, vars: map[string]Term{}, st: st, old: v.entry, pkg: v.Fn.Pkg.Pkg}
	switch t.T.Underlying().(type) {
	case *types.Pointer:
		val, invs, nn := v.invSubject(t, env)
		for _, ti := range invs {
			f := v.typeInvFormula(ti, val, env)
			v.asserts = append(v.asserts, fmt.Sprintf("(=> (and %s (< %s %s)) %s)", nn, t.S, v.entry.alloc, f))
		}
	case *types.Interface:
		g := fmt.Sprintf("(< (ival %s) %s)", t.S, v.entry.alloc)
		v.assumeTypeInvG(t, env, 1, g)
	}
}

// assumeOrdered: g == "true" is an assumption about the function's inputs (global); g equal to the current block's
// reachability is a program-order assumption and narrows what follows; any other g is a plain guarded fact.
func (v *FnVC) assumeOrdered(g, f string) {
	if g != "true" && v.curBlock != nil && g == v.reach[v.curBlock] {
		v.narrow(f)
		return
	}
	v.assume(g, f)
}
