package main

// Encoding of individual SSA instructions.

import (
	"fmt"
	"go/ast"
	"go/token"
	"go/types"
	"strings"

	"golang.org/x/tools/go/ssa"
)

func identName(d *ssa.DebugRef) string {
	if id, ok := d.Expr.(*ast.Ident); ok {
		return id.Name
	}
	return ""
}

// panicCheck: cond must hold or the program panics. Obligation in nopanic functions, assumption otherwise.
func (v *FnVC) panicCheck(kind, cond, text string, pos token.Pos) {
	if v.nopanic {
		v.oblige("nopanic-"+kind, cond, text, pos)
	}
	v.narrow(cond)
}

// narrow restricts the rest of the current block (and its successors) to executions satisfying cond.
// It must NOT be a global assumption guarded by the block's reachability: that would make the obligation just
// generated for the same condition (and every earlier obligation of the block) vacuous.
func (v *FnVC) narrow(cond string) {
	if cond == "true" {
		return
	}
	old := v.reach[v.curBlock]
	v.reach[v.curBlock] = v.define("reach_n", "Bool", fmt.Sprintf("(and %s %s)", old, cond))
}

func (v *FnVC) encodeInstr(ins ssa.Instruction) {
	st := v.cur
	switch i := ins.(type) {
	case *ssa.DebugRef:
		return
	case *ssa.Alloc:
		v.encodeAlloc(i)
	case *ssa.FieldAddr:
		base := v.locOf(i.X)
		// nil check
		if base.Opaque != "" && len(base.Path) == 0 {
			v.panicCheck("nil", fmt.Sprintf("(not (= %s 0))", base.Opaque), "nil pointer dereference", i.Pos())
		}
		stT := deref(i.X.Type())
		s, _ := structOf(stT)
		f := s.Field(i.Field)
		if base.Kind == LObj {
			v.ptrs[i] = &Loc{Kind: LField, Key: v.fieldKey(stT, f), Ref: base.Ref, T: f.Type(), RootT: f.Type()}
		} else {
			nl := *base
			nl.Opaque = ""
			nl.Path = append(append([]PathStep{}, base.Path...), PathStep{Field: i.Field, ContT: stT})
			nl.T = f.Type()
			v.ptrs[i] = &nl
		}
	case *ssa.IndexAddr:
		idx := v.val(i.Index)
		switch u := i.X.Type().Underlying().(type) {
		case *types.Slice:
			s := v.val(i.X)
			v.panicCheck("index", fmt.Sprintf("(and (<= 0 %s) (< %s (slen %s)))", idx.S, idx.S, s.S), "slice index in range", i.Pos())
			v.ptrs[i] = &Loc{Kind: LElem, Key: v.elemKey(u.Elem()), Ref: fmt.Sprintf("(sarr %s)", s.S), Idx: fmt.Sprintf("(+ (soff %s) %s)", s.S, idx.S), T: u.Elem(), RootT: u.Elem()}
		case *types.Pointer:
			arr := u.Elem().Underlying().(*types.Array)
			base := v.locOf(i.X)
			v.panicCheck("index", fmt.Sprintf("(and (<= 0 %s) (< %s %d))", idx.S, idx.S, arr.Len()), "array index in range", i.Pos())
			nl := *base
			nl.Opaque = ""
			nl.Path = append(append([]PathStep{}, base.Path...), PathStep{IsIndex: true, Index: idx.S, ContT: u.Elem()})
			nl.T = arr.Elem()
			v.ptrs[i] = &nl
		default:
			v.fail("IndexAddr on %s", i.X.Type())
		}
	case *ssa.Store:
		l := v.locOf(i.Addr)
		if l.Opaque != "" {
			v.panicCheck("nil", fmt.Sprintf("(not (= %s 0))", l.Opaque), "nil pointer dereference", i.Pos())
		}
		val := v.val(i.Val)
		v.checkFieldGuards(i, l, val, i.Pos())
		v.store(st, l, val)
	case *ssa.UnOp:
		v.encodeUnOp(i)
	case *ssa.BinOp:
		v.encodeBinOp(i)
	case *ssa.Phi:
		v.fail("phi after non-phi")
	case *ssa.Field:
		x := v.val(i.X)
		s, _ := structOf(i.X.Type())
		f := s.Field(i.Field)
		_ = f
		v.setVal(i, fmt.Sprintf("(%s__%s %s)", v.S.SortOf(i.X.Type()), fieldAcc(s, i.Field), x.S))
	case *ssa.Index:
		x := v.val(i.X)
		idx := v.val(i.Index)
		switch u := i.X.Type().Underlying().(type) {
		case *types.Array:
			v.panicCheck("index", fmt.Sprintf("(and (<= 0 %s) (< %s %d))", idx.S, idx.S, u.Len()), "array index in range", i.Pos())
			v.setVal(i, v.arrSelect(x.S, u, idx.S))
		default:
			// string index
			v.panicCheck("index", fmt.Sprintf("(and (<= 0 %s) (< %s (len_s %s)))", idx.S, idx.S, x.S), "string index in range", i.Pos())
			t := v.setVal(i, fmt.Sprintf("(at_s %s %s)", x.S, idx.S))
			v.assumeWF(t)
		}
	case *ssa.Extract:
		tup, ok := v.tuples[i.Tuple]
		if !ok {
			v.fail("extract from unknown tuple %s", i.Tuple.Name())
		}
		t := tup[i.Index]
		t.T = i.Type()
		v.vals[i] = t
	case *ssa.MakeInterface:
		x := v.val(i.X)
		tag := v.tagOf(i.X.Type())
		v.implTagFacts(i.X.Type())
		v.setVal(i, fmt.Sprintf("(mkIface %d %s)", tag, v.S.Box(x, i.X.Type())))
	case *ssa.ChangeInterface:
		v.vals[i] = Term{S: v.val(i.X).S, Sort: "Iface", T: i.Type()}
	case *ssa.ChangeType:
		x := v.val(i.X)
		if v.S.SortOf(i.Type()) == x.Sort {
			v.vals[i] = Term{S: x.S, Sort: x.Sort, T: i.Type()}
		} else {
			v.vals[i] = v.convertStruct(x, i.Type())
		}
	case *ssa.Convert:
		v.encodeConvert(i)
	case *ssa.TypeAssert:
		v.encodeTypeAssert(i)
	case *ssa.MakeMap:
		r := st.alloc
		na := v.define("alloc", "Int", fmt.Sprintf("(+ %s 1)", r))
		st.alloc = na
		m := i.Type().Underlying().(*types.Map)
		d, _, l := v.mapKeys(m)
		ks := v.S.SortOf(m.Key())
		v.heapSet(st, d, fmt.Sprintf("(store %s %s ((as const (Array %s Bool)) false))", v.heapGet(st, d), r, ks))
		v.heapSet(st, l, fmt.Sprintf("(store %s %s 0)", v.heapGet(st, l), r))
		v.setVal(i, r)
	case *ssa.MakeSlice:
		r := st.alloc
		st.alloc = v.define("alloc", "Int", fmt.Sprintf("(+ %s 1)", r))
		ln := v.val(i.Len)
		cp := v.val(i.Cap)
		el := i.Type().Underlying().(*types.Slice).Elem()
		k := v.elemKey(el)
		v.panicCheck("makeslice", fmt.Sprintf("(and (<= 0 %s) (<= %s %s))", ln.S, ln.S, cp.S), "makeslice: len out of range", i.Pos())
		v.heapSet(st, k, fmt.Sprintf("(store %s %s %s)", v.heapGet(st, k), r, v.S.ConstArray(fmt.Sprintf("(Array Int %s)", v.S.SortOf(el)), v.S.Zero(el).S)))
		v.setVal(i, fmt.Sprintf("(mkSlice %s 0 %s %s)", r, ln.S, cp.S))
	case *ssa.MakeChan:
		r := st.alloc
		st.alloc = v.define("alloc", "Int", fmt.Sprintf("(+ %s 1)", r))
		k := v.regKey("CH:len", "(Array Int Int)")
		v.heapSet(st, k, fmt.Sprintf("(store %s %s 0)", v.heapGet(st, k), r))
		kc := v.regKey("CH:closed", "(Array Int Bool)")
		v.heapSet(st, kc, fmt.Sprintf("(store %s %s false)", v.heapGet(st, kc), r))
		v.S.declFun("chan_cap", "(Int) Int")
		v.asserts = append(v.asserts, fmt.Sprintf("(= (chan_cap %s) %s)", r, v.val(i.Size).S))
		v.setVal(i, r)
	case *ssa.MakeClosure:
		fn := i.Fn.(*ssa.Function)
		v.closureBind[fn] = i
		r := st.alloc
		st.alloc = v.define("alloc", "Int", fmt.Sprintf("(+ %s 1)", r))
		v.setVal(i, r)
	case *ssa.Slice:
		v.encodeSlice(i)
	case *ssa.Lookup:
		v.encodeLookup(i)
	case *ssa.MapUpdate:
		v.encodeMapUpdate(i)
	case *ssa.Range:
		k := v.iterKeys[i]
		switch i.X.Type().Underlying().(type) {
		case *types.Map:
			m := i.X.Type().Underlying().(*types.Map)
			st.heap[k] = v.define("iter", v.heapSorts[k], fmt.Sprintf("((as const (Array %s Bool)) false)", v.S.SortOf(m.Key())))
		default:
			st.heap[k] = "0"
		}
		v.vals[i] = Term{S: "0", Sort: "Int", T: nil}
	case *ssa.Next:
		v.encodeNext(i)
	case *ssa.Call:
		v.encodeCall(i, i.Common(), i)
	case *ssa.Go:
		v.encodeGo(i)
	case *ssa.Defer:
		v.deferred = append(v.deferred, i)
		v.deferGuards = append(v.deferGuards, v.reach[v.curBlock])
	case *ssa.RunDefers:
		v.runDefers(i)
	case *ssa.Send:
		c := v.val(i.Chan)
		k := v.regKey("CH:len", "(Array Int Int)")
		v.S.declFun("chan_cap", "(Int) Int")
		h := v.heapGet(st, k)
		v.panicCheck("send", fmt.Sprintf("(not (select %s %s))", v.heapGet(st, v.regKey("CH:closed", "(Array Int Bool)")), c.S), "send on closed channel", i.Pos())
		if v.C != nil && v.C.ChanNonNil {
			if sv := v.val(i.X); sv.Sort == "Iface" {
				v.oblige("chan-nonnil", fmt.Sprintf("(not (= (itag %s) 0))", sv.S), "value sent on a channel is a non-nil interface value (channel invariant)", i.Pos())
			}
		}
		// a send on a buffered channel blocks until there is room: it completes only when len < cap (A-go)
		v.narrow(fmt.Sprintf("(or (<= (chan_cap %s) 0) (< (select %s %s) (chan_cap %s)))", c.S, h, c.S, c.S))
		v.heapSet(st, k, fmt.Sprintf("(store %s %s (+ (select %s %s) 1))", h, c.S, h, c.S))
		v.chanEvent("send", c, i.Pos())
	case *ssa.Select:
		v.encodeSelect(i)
	case *ssa.Panic:
		if v.nopanic {
			v.oblige("nopanic-explicit", "false", "explicit panic is unreachable", i.Pos())
		}
		// path ends
	case *ssa.Return:
		v.encodeReturn(i)
	case *ssa.Jump:
		v.edge(i.Block(), i.Block().Succs[0], "true")
	case *ssa.If:
		c := v.val(i.Cond)
		b := i.Block()
		v.edge(b, b.Succs[0], c.S)
		v.edge(b, b.Succs[1], "(not "+c.S+")")
	case *ssa.SliceToArrayPointer:
		v.vals[i] = v.havocVal(i.Name(), i.Type())
		v.note("SliceToArrayPointer havocked in %s", v.fnName())
	default:
		v.fail("unsupported instruction %T (%s)", ins, ins)
	}
}

func (v *FnVC) encodeAlloc(i *ssa.Alloc) {
	st := v.cur
	if !i.Heap {
		el := deref(i.Type())
		l := &Loc{Kind: LLocal, Key: v.localKey(i), T: el, RootT: el}
		v.ptrs[i] = l
		v.store(st, l, v.S.Zero(el))
		v.initGhosts(el, func() string { return v.ptrTerm(l) })
		return
	}
	r := st.alloc
	st.alloc = v.define("alloc", "Int", fmt.Sprintf("(+ %s 1)", r))
	ref := v.define(i.Name(), "Int", r)
	el := deref(i.Type())
	v.vals[i] = Term{S: ref, Sort: "Int", T: i.Type()}
	l := v.locFromPtr(ref, el)
	v.ptrs[i] = l
	v.store(st, l, v.S.Zero(el))
	v.initGhosts(el, func() string { return ref })
	if st, isS := structOf(el); isS && l.Kind == LObj && unescapedAlloc(i) {
		for k := 0; k < st.NumFields(); k++ {
			v.stableCells = append(v.stableCells, stableCell{key: v.fieldKey(el, st.Field(k)), ref: ref, src: i, field: k})
		}
	}
	if _, isS := structOf(el); !isS && l.Kind == LCell && stableLocal(i) {
		captured := false
		for _, r := range *i.Referrers() {
			if _, ok := r.(*ssa.MakeClosure); ok {
				captured = true
			}
		}
		if captured {
			v.stableCells = append(v.stableCells, stableCell{key: l.Key, ref: ref, src: i, field: -1})
		}
	}
}

// initGhosts sets the ghost fields of a freshly allocated object to their zero values, including those of
// struct-typed fields stored by value inside it (addressed by their interior pointers).
func (v *FnVC) initGhosts(el types.Type, ref func() string) {
	prefix := typeKey(el) + "."
	for k, g := range v.W.ghosts {
		if !strings.HasPrefix(k, prefix) {
			continue
		}
		gt, so := v.sortOfSpecType(g.Sort, v.Fn.Pkg.Pkg)
		key := v.regKey("G:"+typeKey(el)+"."+g.Name, fmt.Sprintf("(Array Int %s)", so))
		zero := v.S.zeroOfSort(so, gt)
		v.heapSet(v.cur, key, fmt.Sprintf("(store %s %s %s)", v.heapGet(v.cur, key), ref(), zero))
	}
	if len(v.W.ghosts) == 0 {
		return
	}
	if st, ok := structOf(el); ok {
		for i := 0; i < st.NumFields(); i++ {
			f := st.Field(i)
			if _, isS := structOf(f.Type()); !isS {
				continue
			}
			has := false
			fp := typeKey(f.Type()) + "."
			for k := range v.W.ghosts {
				if strings.HasPrefix(k, fp) {
					has = true
				}
			}
			if !has {
				continue
			}
			fld := f
			v.initGhosts(f.Type(), func() string {
				l := &Loc{Kind: LField, Key: v.fieldKey(el, fld), Ref: ref(), T: fld.Type(), RootT: fld.Type()}
				return v.ptrTerm(l)
			})
		}
	}
}

func (v *FnVC) convertStruct(x Term, to types.Type) Term {
	from, ok1 := structOf(x.T)
	dst, ok2 := structOf(to)
	if !ok1 || !ok2 || from.NumFields() != dst.NumFields() {
		return v.havocVal("conv", to)
	}
	so := v.S.SortOf(to)
	fso := v.S.SortOf(x.T)
	if dst.NumFields() == 0 {
		return Term{S: "mk_" + so, Sort: so, T: to}
	}
	var parts []string
	for k := 0; k < dst.NumFields(); k++ {
		parts = append(parts, fmt.Sprintf("(%s__%s %s)", fso, fieldAcc(from, k), x.S))
	}
	return Term{S: fmt.Sprintf("(mk_%s %s)", so, strings.Join(parts, " ")), Sort: so, T: to}
}

func (v *FnVC) encodeUnOp(i *ssa.UnOp) {
	st := v.cur
	switch i.Op {
	case token.MUL:
		if g, ok := i.X.(*ssa.Global); ok && g.Pkg != nil && !strings.HasPrefix(g.Pkg.Pkg.Path(), v.W.Module) {
			// package-level variable of a dependency: treated as an immutable constant (assumption, listed)
			t := v.extGlobal(g.Pkg.Pkg.Path(), g.Name(), deref(g.Type()))
			v.vals[i] = t
			return
		}
		l := v.locOf(i.X)
		if l.Opaque != "" {
			v.panicCheck("nil", fmt.Sprintf("(not (= %s 0))", l.Opaque), "nil pointer dereference", i.Pos())
		}
		v.checkLoadGuards(i)
		t := v.load(st, l)
		nt := v.setVal(i, t.S)
		v.assumeWF(nt)
		v.assumeFreshBound(nt, st)
		v.assumeInvOnLoad(nt)
	case token.NOT:
		v.setVal(i, "(not "+v.val(i.X).S+")")
	case token.SUB:
		x := v.val(i.X)
		if x.Sort == "Float" {
			v.vals[i] = v.havocVal(i.Name(), i.Type())
			return
		}
		v.setVal(i, v.wrap("(- "+x.S+")", i.Type()))
	case token.XOR:
		v.vals[i] = v.havocVal(i.Name(), i.Type())
	case token.ARROW:
		// channel receive
		c := v.val(i.X)
		k := v.regKey("CH:len", "(Array Int Int)")
		h := v.heapGet(st, k)
		el := i.X.Type().Underlying().(*types.Chan).Elem()
		got := v.havocVal(i.Name(), el)
		okc := v.freshConst("recvok", "Bool")
		if v.C != nil && v.C.ChanNonNil && got.Sort == "Iface" {
			v.asserts = append(v.asserts, fmt.Sprintf("(=> %s (not (= (itag %s) 0)))", okc, got.S))
		}
		// a successful receive removes one element (when buffered); closed+empty gives zero,false
		v.heapSet(st, k, fmt.Sprintf("(store %s %s (ite %s (- (select %s %s) 1) (select %s %s)))", h, c.S, okc, h, c.S, h, c.S))
		v.S.declFun("chan_fired", "(Int) Bool")
		v.narrow(fmt.Sprintf("(chan_fired %s)", c.S))
		if i.CommaOk {
			v.tuples[i] = []Term{got, boolT(okc)}
		} else {
			v.vals[i] = got
		}
	default:
		v.fail("unsupported unop %s", i.Op)
	}
}

func (v *FnVC) extGlobal(pkgPath, name string, t types.Type) Term {
	n := "gval_" + sanitize(pkgPath+"."+name)
	so := v.S.SortOf(t)
	v.S.declFun(n, "() "+so)
	tm := Term{S: n, Sort: so, T: t}
	if !v.implFacts["gv:"+n] {
		v.implFacts["gv:"+n] = true
		v.assumeWF(tm)
		v.note("package-level variable %s.%s of a dependency is treated as immutable", pkgPath, name)
	}
	return tm
}

func (v *FnVC) chanEvent(kind string, c Term, pos token.Pos) {}

// wrap models fixed-width wrap-around once (sufficient for a single +,-).
func (v *FnVC) wrap(s string, t types.Type) string {
	lo, hi, ok := intRange(t)
	if !ok {
		return s
	}
	b := t.Underlying().(*types.Basic)
	var size string
	switch b.Kind() {
	case types.Int, types.Int64, types.Uint, types.Uint64, types.Uintptr:
		size = "18446744073709551616"
	case types.Int32, types.Uint32:
		size = "4294967296"
	case types.Int16, types.Uint16:
		size = "65536"
	case types.Int8, types.Uint8:
		size = "256"
	default:
		return s
	}
	n := v.define("arith", "Int", s)
	return fmt.Sprintf("(ite (> %s %s) (- %s %s) (ite (< %s %s) (+ %s %s) %s))", n, hi, n, size, n, lo, n, size, n)
}

func (v *FnVC) encodeBinOp(i *ssa.BinOp) {
	x, y := v.val(i.X), v.val(i.Y)
	if x.Sort == "Float" || y.Sort == "Float" {
		v.vals[i] = v.havocVal(i.Name(), i.Type())
		return
	}
	switch i.Op {
	case token.ADD:
		if x.Sort == "Str" {
			v.setVal(i, v.concat(x.S, y.S))
			return
		}
		v.setVal(i, v.wrap(fmt.Sprintf("(+ %s %s)", x.S, y.S), i.Type()))
	case token.SUB:
		v.setVal(i, v.wrap(fmt.Sprintf("(- %s %s)", x.S, y.S), i.Type()))
	case token.MUL:
		if _, ok := i.X.(*ssa.Const); ok {
			v.setVal(i, v.wrapMul(fmt.Sprintf("(* %s %s)", x.S, y.S), i.Type()))
		} else if _, ok := i.Y.(*ssa.Const); ok {
			v.setVal(i, v.wrapMul(fmt.Sprintf("(* %s %s)", x.S, y.S), i.Type()))
		} else {
			v.vals[i] = v.havocVal(i.Name(), i.Type())
			v.note("non-linear multiplication havocked in %s", v.fnName())
		}
	case token.QUO:
		v.panicCheck("div", fmt.Sprintf("(not (= %s 0))", y.S), "division by zero", i.Pos())
		if _, ok := i.Y.(*ssa.Const); ok {
			v.setVal(i, v.goDiv(x.S, y.S))
		} else {
			v.vals[i] = v.havocVal(i.Name(), i.Type())
		}
	case token.REM:
		v.panicCheck("div", fmt.Sprintf("(not (= %s 0))", y.S), "division by zero", i.Pos())
		if _, ok := i.Y.(*ssa.Const); ok {
			v.setVal(i, v.goMod(x.S, y.S))
		} else {
			v.vals[i] = v.havocVal(i.Name(), i.Type())
		}
	case token.AND, token.OR, token.XOR, token.SHL, token.SHR, token.AND_NOT:
		if x.Sort == "Bool" {
			op := map[token.Token]string{token.AND: "and", token.OR: "or", token.XOR: "xor"}[i.Op]
			v.setVal(i, fmt.Sprintf("(%s %s %s)", op, x.S, y.S))
			return
		}
		v.vals[i] = v.havocVal(i.Name(), i.Type())
		v.note("bit operation havocked in %s", v.fnName())
	case token.EQL, token.NEQ:
		var s string
		switch {
		case x.Sort == "Iface" && isNilConst(i.Y):
			s = fmt.Sprintf("(= (itag %s) 0)", x.S)
		case x.Sort == "Iface" && isNilConst(i.X):
			s = fmt.Sprintf("(= (itag %s) 0)", y.S)
		case x.Sort == "Slice" && isNilConst(i.Y):
			s = fmt.Sprintf("(= (sarr %s) 0)", x.S)
		case x.Sort == "Slice" && isNilConst(i.X):
			s = fmt.Sprintf("(= (sarr %s) 0)", y.S)
		case x.Sort != y.Sort:
			// interface vs concrete comparison etc.
			v.vals[i] = v.havocVal(i.Name(), i.Type())
			return
		default:
			s = fmt.Sprintf("(= %s %s)", x.S, y.S)
		}
		if i.Op == token.NEQ {
			s = "(not " + s + ")"
		}
		v.setVal(i, s)
	case token.LSS, token.LEQ, token.GTR, token.GEQ:
		if x.Sort == "Str" {
			v.S.declFun("str_less", "(Str Str) Bool")
			var s string
			switch i.Op {
			case token.LSS:
				s = fmt.Sprintf("(str_less %s %s)", x.S, y.S)
			case token.GTR:
				s = fmt.Sprintf("(str_less %s %s)", y.S, x.S)
			case token.LEQ:
				s = fmt.Sprintf("(not (str_less %s %s))", y.S, x.S)
			case token.GEQ:
				s = fmt.Sprintf("(not (str_less %s %s))", x.S, y.S)
			}
			v.setVal(i, s)
			return
		}
		op := map[token.Token]string{token.LSS: "<", token.LEQ: "<=", token.GTR: ">", token.GEQ: ">="}[i.Op]
		v.setVal(i, fmt.Sprintf("(%s %s %s)", op, x.S, y.S))
	default:
		v.fail("unsupported binop %s", i.Op)
	}
}

func (v *FnVC) wrapMul(s string, t types.Type) string {
	// multiplication by a constant: assume no overflow is not sound; model result as exact when in range, havoc otherwise
	lo, hi, ok := intRange(t)
	if !ok {
		return s
	}
	n := v.define("arith", "Int", s)
	h := v.havocVal("ovf", t)
	return fmt.Sprintf("(ite (and (<= %s %s) (<= %s %s)) %s %s)", lo, n, n, hi, n, h.S)
}

func isNilConst(x ssa.Value) bool {
	c, ok := x.(*ssa.Const)
	return ok && c.Value == nil
}

func (v *FnVC) encodeConvert(i *ssa.Convert) {
	x := v.val(i.X)
	from, to := i.X.Type().Underlying(), i.Type().Underlying()
	fb, _ := from.(*types.Basic)
	tb, _ := to.(*types.Basic)
	switch {
	case fb != nil && tb != nil && fb.Info()&types.IsInteger != 0 && tb.Info()&types.IsInteger != 0:
		lo, hi, _ := intRange(to)
		flo, fhi, _ := intRange(from)
		_ = flo
		_ = fhi
		// in-range values are preserved; out-of-range values wrap (havoc within range)
		h := v.havocVal("conv", i.Type())
		v.setVal(i, fmt.Sprintf("(ite (and (<= %s %s) (<= %s %s)) %s %s)", lo, x.S, x.S, hi, x.S, h.S))
	case fb != nil && tb != nil && fb.Info()&types.IsString != 0 && tb.Info()&types.IsString != 0:
		v.vals[i] = Term{S: x.S, Sort: "Str", T: i.Type()}
	case tb != nil && tb.Info()&types.IsString != 0 && fb != nil && fb.Info()&types.IsInteger != 0:
		// string(rune)
		v.S.declFun("str_of_rune", "(Int) Str")
		t := v.setVal(i, fmt.Sprintf("(str_of_rune %s)", x.S))
		v.asserts = append(v.asserts, v.strWF(t.S))
		v.asserts = append(v.asserts, fmt.Sprintf("(and (>= (len_s %s) 1) (<= (len_s %s) 4) (=> (and (<= 0 %s) (< %s 128)) (and (= (len_s %s) 1) (= (at_s %s 0) %s))))", t.S, t.S, x.S, x.S, t.S, t.S, x.S))
		v.asserts = append(v.asserts, fmt.Sprintf("(=> (not (and (<= 0 %s) (< %s 128))) (forall ((k Int)) (! (=> (and (<= 0 k) (< k (len_s %s))) (>= (at_s %s k) 128)) :pattern ((at_s %s k)))))", x.S, x.S, t.S, t.S, t.S))
	case tb != nil && tb.Info()&types.IsString != 0:
		// string([]byte) / string([]rune)
		if sl, ok := from.(*types.Slice); ok {
			if eb, ok := sl.Elem().Underlying().(*types.Basic); ok && eb.Kind() == types.Uint8 {
				v.S.declFun("str_of_bytes", "(Int Int Int) Str")
				k := v.elemKey(sl.Elem())
				t := v.havocVal(i.Name(), i.Type())
				v.vals[i] = t
				v.asserts = append(v.asserts, fmt.Sprintf("(= (len_s %s) (slen %s))", t.S, x.S))
				v.asserts = append(v.asserts, fmt.Sprintf("(forall ((k Int)) (! (=> (and (<= 0 k) (< k (slen %s))) (= (at_s %s k) (select (select %s (sarr %s)) (+ (soff %s) k)))) :pattern ((at_s %s k))))", x.S, t.S, v.heapGet(v.cur, k), x.S, x.S, t.S))
				return
			}
		}
		v.vals[i] = v.havocVal(i.Name(), i.Type())
	case fb != nil && fb.Info()&types.IsString != 0:
		// []byte(s) / []rune(s)
		if sl, ok := to.(*types.Slice); ok {
			st := v.cur
			r := st.alloc
			st.alloc = v.define("alloc", "Int", fmt.Sprintf("(+ %s 1)", r))
			el := sl.Elem()
			k := v.elemKey(el)
			nh := v.freshConst("H_"+k, v.heapSorts[k])
			old := v.heapGet(st, k)
			if eb, ok := el.Underlying().(*types.Basic); ok && eb.Kind() == types.Uint8 {
				ln := v.define("len", "Int", fmt.Sprintf("(len_s %s)", x.S))
				v.setVal(i, fmt.Sprintf("(mkSlice %s 0 %s %s)", r, ln, ln))
				v.asserts = append(v.asserts, fmt.Sprintf("(forall ((k Int)) (! (=> (and (<= 0 k) (< k %s)) (= (select (select %s %s) k) (at_s %s k))) :pattern ((select (select %s %s) k))))", ln, nh, r, x.S, nh, r))
			} else {
				// []rune: length between 0 and len(s), non-empty iff s non-empty
				ln := v.freshConst("runelen", "Int")
				v.asserts = append(v.asserts, fmt.Sprintf("(and (<= 0 %s) (<= %s (len_s %s)) (= (= %s 0) (= (len_s %s) 0)))", ln, ln, x.S, ln, x.S))
				v.setVal(i, fmt.Sprintf("(mkSlice %s 0 %s %s)", r, ln, ln))
				// its first element is the rune decoded at byte position 0
				v.S.declFun("rune_at", "(Str Int) Int")
				v.asserts = append(v.asserts, fmt.Sprintf("(=> (> (len_s %s) 0) (= (select (select %s %s) 0) (rune_at %s 0)))", x.S, nh, r, x.S))
				v.asserts = append(v.asserts, fmt.Sprintf("(=> (and (> (len_s %s) 0) (< (at_s %s 0) 128)) (= (rune_at %s 0) (at_s %s 0)))", x.S, x.S, x.S, x.S))
			}
			// other arrays unchanged
			v.asserts = append(v.asserts, fmt.Sprintf("(forall ((a Int)) (! (=> (not (= a %s)) (= (select %s a) (select %s a))) :pattern ((select %s a))))", r, nh, old, nh))
			st.heap[k] = nh
			return
		}
		v.vals[i] = v.havocVal(i.Name(), i.Type())
	default:
		v.vals[i] = v.havocVal(i.Name(), i.Type())
		v.note("conversion %s -> %s havocked in %s", i.X.Type(), i.Type(), v.fnName())
	}
}

// implTagFacts records which known interfaces a concrete type implements.
func (v *FnVC) implTagFacts(t types.Type) {
	tag := v.tagOf(t)
	for name, it := range v.ifaceFuncs {
		key := fmt.Sprintf("%s:%d", name, tag)
		if v.implFacts[key] {
			continue
		}
		v.implFacts[key] = true
		v.asserts = append(v.asserts, fmt.Sprintf("(= (%s %d) %v)", name, tag, types.Implements(t, it)))
	}
}

func (v *FnVC) implFunc(it *types.Interface, named types.Type) string {
	name := "impl_" + sanitize(shortTypeName(named))
	if v.ifaceFuncs == nil {
		v.ifaceFuncs = map[string]*types.Interface{}
	}
	if _, ok := v.ifaceFuncs[name]; !ok {
		v.ifaceFuncs[name] = it
		v.S.declFun(name, "(Int) Bool")
		v.asserts = append(v.asserts, fmt.Sprintf("(= (%s 0) false)", name))
		// facts for every tag known so far
		for _, tt := range append([]types.Type{}, v.S.tagTypes...) {
			tag := v.tagOf(tt)
			key := fmt.Sprintf("%s:%d", name, tag)
			if !v.implFacts[key] {
				v.implFacts[key] = true
				v.asserts = append(v.asserts, fmt.Sprintf("(= (%s %d) %v)", name, tag, types.Implements(tt, it)))
			}
		}
	}
	return name
}

func (v *FnVC) encodeTypeAssert(i *ssa.TypeAssert) {
	x := v.val(i.X)
	var ok string
	var val Term
	if it, isI := i.AssertedType.Underlying().(*types.Interface); isI {
		if it.NumMethods() == 0 {
			ok = fmt.Sprintf("(not (= (itag %s) 0))", x.S)
		} else {
			f := v.implFunc(it, i.AssertedType)
			ok = fmt.Sprintf("(%s (itag %s))", f, x.S)
		}
		okn := v.define("taok", "Bool", ok)
		val = Term{S: fmt.Sprintf("(ite %s %s (mkIface 0 0))", okn, x.S), Sort: "Iface", T: i.AssertedType}
		ok = okn
	} else {
		tag := v.tagOf(i.AssertedType)
		v.implTagFacts(i.AssertedType)
		okn := v.define("taok", "Bool", fmt.Sprintf("(= (itag %s) %d)", x.S, tag))
		ok = okn
		un := v.S.Unbox(fmt.Sprintf("(ival %s)", x.S), i.AssertedType)
		val = Term{S: fmt.Sprintf("(ite %s %s %s)", okn, un, v.S.Zero(i.AssertedType).S), Sort: v.S.SortOf(i.AssertedType), T: i.AssertedType}
	}
	if i.CommaOk {
		vn := v.define(i.Name()+"_v", val.Sort, val.S)
		vt := Term{S: vn, Sort: val.Sort, T: val.T}
		v.assumeWF(vt)
		v.tuples[i] = []Term{vt, boolT(ok)}
	} else {
		v.panicCheck("typeassert", ok, "type assertion holds", i.Pos())
		t := v.setVal(i, val.S)
		v.assumeWF(t)
	}
}

func (v *FnVC) encodeSlice(i *ssa.Slice) {
	x := v.val(i.X)
	st := v.cur
	switch u := i.X.Type().Underlying().(type) {
	case *types.Basic: // string
		lo := "0"
		if i.Low != nil {
			lo = v.val(i.Low).S
		}
		hi := fmt.Sprintf("(len_s %s)", x.S)
		if i.High != nil {
			hi = v.val(i.High).S
		}
		v.panicCheck("slice", fmt.Sprintf("(and (<= 0 %s) (<= %s %s) (<= %s (len_s %s)))", lo, lo, hi, hi, x.S), "string slice bounds in range", i.Pos())
		v.setVal(i, v.substr(x.S, lo, hi))
	case *types.Slice:
		lo := "0"
		if i.Low != nil {
			lo = v.val(i.Low).S
		}
		hi := fmt.Sprintf("(slen %s)", x.S)
		if i.High != nil {
			hi = v.val(i.High).S
		}
		mx := fmt.Sprintf("(scap %s)", x.S)
		if i.Max != nil {
			mx = v.val(i.Max).S
		}
		v.panicCheck("slice", fmt.Sprintf("(and (<= 0 %s) (<= %s %s) (<= %s %s) (<= %s (scap %s)))", lo, lo, hi, hi, mx, mx, x.S), "slice bounds in range", i.Pos())
		v.setVal(i, fmt.Sprintf("(mkSlice (sarr %s) (+ (soff %s) %s) (- %s %s) (- %s %s))", x.S, x.S, lo, hi, lo, mx, lo))
	case *types.Pointer:
		arr := u.Elem().Underlying().(*types.Array)
		// slicing an array: modelled as a copy into a fresh backing array (sound for the varargs idiom
		// and for arrays not written through the original pointer afterwards)
		if al, ok := i.X.(*ssa.Alloc); !ok || (al.Comment != "varargs" && al.Comment != "slicelit") {
			v.note("slice of array pointer modelled as copy in %s", v.fnName())
		}
		l := v.locOf(i.X)
		whole := v.load(st, l)
		r := st.alloc
		st.alloc = v.define("alloc", "Int", fmt.Sprintf("(+ %s 1)", r))
		k := v.elemKey(arr.Elem())
		es := v.S.SortOf(arr.Elem())
		lo := "0"
		if i.Low != nil {
			lo = v.val(i.Low).S
		}
		hi := fmt.Sprint(arr.Len())
		if i.High != nil {
			hi = v.val(i.High).S
		}
		var content string
		if arr.Len() <= 4 {
			content = v.S.ConstArray(fmt.Sprintf("(Array Int %s)", es), v.S.Zero(arr.Elem()).S)
			for n := int64(0); n < arr.Len(); n++ {
				content = fmt.Sprintf("(store %s %d %s)", content, n, v.arrSelect(whole.S, arr, fmt.Sprint(n)))
			}
		} else {
			content = whole.S
		}
		v.heapSet(st, k, fmt.Sprintf("(store %s %s %s)", v.heapGet(st, k), r, content))
		v.setVal(i, fmt.Sprintf("(mkSlice %s %s (- %s %s) (- %d %s))", r, lo, hi, lo, arr.Len(), lo))
	default:
		v.fail("slice of %s", i.X.Type())
	}
}

func (v *FnVC) encodeLookup(i *ssa.Lookup) {
	x := v.val(i.X)
	idx := v.val(i.Index)
	st := v.cur
	if m, ok := i.X.Type().Underlying().(*types.Map); ok {
		d, vl, _ := v.mapKeys(m)
		present := fmt.Sprintf("(and (not (= %s 0)) (select (select %s %s) %s))", x.S, v.heapGet(st, d), x.S, idx.S)
		pn := v.define("present", "Bool", present)
		val := fmt.Sprintf("(ite %s (select (select %s %s) %s) %s)", pn, v.heapGet(st, vl), x.S, idx.S, v.S.Zero(m.Elem()).S)
		vn := v.define(i.Name()+"_v", v.S.SortOf(m.Elem()), val)
		vt := Term{S: vn, Sort: v.S.SortOf(m.Elem()), T: m.Elem()}
		v.assumeWF(vt)
		v.assumeFreshBound(vt, st)
		if i.CommaOk {
			v.tuples[i] = []Term{vt, boolT(pn)}
		} else {
			v.vals[i] = vt
		}
		return
	}
	// string index
	v.panicCheck("index", fmt.Sprintf("(and (<= 0 %s) (< %s (len_s %s)))", idx.S, idx.S, x.S), "string index in range", i.Pos())
	t := v.setVal(i, fmt.Sprintf("(at_s %s %s)", x.S, idx.S))
	v.assumeWF(t)
}

func (v *FnVC) encodeMapUpdate(i *ssa.MapUpdate) {
	st := v.cur
	m := i.Map.Type().Underlying().(*types.Map)
	mp := v.val(i.Map)
	k := v.val(i.Key)
	val := v.val(i.Value)
	v.panicCheck("nilmap", fmt.Sprintf("(not (= %s 0))", mp.S), "assignment to entry in nil map", i.Pos())
	v.checkMapGuards(i, mp, k)
	d, vl, l := v.mapKeys(m)
	hd, hv, hl := v.heapGet(st, d), v.heapGet(st, vl), v.heapGet(st, l)
	v.heapSet(st, l, fmt.Sprintf("(store %s %s (ite (select (select %s %s) %s) (select %s %s) (+ (select %s %s) 1)))", hl, mp.S, hd, mp.S, k.S, hl, mp.S, hl, mp.S))
	v.heapSet(st, d, fmt.Sprintf("(store %s %s (store (select %s %s) %s true))", hd, mp.S, hd, mp.S, k.S))
	v.heapSet(st, vl, fmt.Sprintf("(store %s %s (store (select %s %s) %s %s))", hv, mp.S, hv, mp.S, k.S, val.S))
}

func (v *FnVC) encodeNext(i *ssa.Next) {
	st := v.cur
	rng := i.Iter.(*ssa.Range)
	k := v.iterKeys[rng]
	tup := i.Type().(*types.Tuple)
	if i.IsString {
		s := v.val(rng.X)
		pos := v.heapGet(st, k)
		ok := v.define("nextok", "Bool", fmt.Sprintf("(< %s (len_s %s))", pos, s.S))
		// decoding is a function of the string and the byte position: rune_at / rune_w (contract builtins runeAt, runeWidth)
		v.S.declFun("rune_at", "(Str Int) Int")
		v.S.declFun("rune_w", "(Str Int) Int")
		w := v.define("width", "Int", fmt.Sprintf("(rune_w %s %s)", s.S, pos))
		r := v.define("rune", "Int", fmt.Sprintf("(rune_at %s %s)", s.S, pos))
		b0 := fmt.Sprintf("(at_s %s %s)", s.S, pos)
		v.assume(v.reach[v.curBlock], fmt.Sprintf("(=> %s (and (<= 1 %s) (<= %s 4) (<= (+ %s %s) (len_s %s)) (=> (< %s 128) (and (= %s 1) (= %s %s))) (=> (>= %s 128) (and (>= %s 128) (<= %s 1114111))) (>= %s 0)))", ok, w, w, pos, w, s.S, b0, w, r, b0, b0, r, r, r))
		// bytes covered by a multi-byte (or invalid) sequence are all >= 0x80
		v.assume(v.reach[v.curBlock], fmt.Sprintf("(=> (and %s (>= %s 128)) (forall ((k Int)) (! (=> (and (<= %s k) (< k (+ %s %s))) (>= (at_s %s k) 128)) :pattern ((at_s %s k)))))", ok, b0, pos, pos, w, s.S, s.S))
		v.assume(v.reach[v.curBlock], fmt.Sprintf("(and (<= 0 %s) (<= %s (len_s %s)))", pos, pos, s.S))
		np := v.define("iterpos", "Int", fmt.Sprintf("(ite %s (+ %s %s) %s)", ok, pos, w, pos))
		st.heap[k] = np
		v.tuples[i] = []Term{boolT(ok), {S: pos, Sort: "Int", T: tup.At(1).Type()}, {S: r, Sort: "Int", T: tup.At(2).Type()}}
		return
	}
	m := rng.X.Type().Underlying().(*types.Map)
	mp := v.val(rng.X)
	d, vl, _ := v.mapKeys(m)
	visited := v.heapGet(st, k)
	ok := v.freshConst("nextok", "Bool")
	key := v.havocVal("key", m.Key())
	dom := fmt.Sprintf("(select %s %s)", v.heapGet(st, d), mp.S)
	v.assume(v.reach[v.curBlock], fmt.Sprintf("(=> %s (and (not (= %s 0)) (select %s %s) (not (select %s %s))))", ok, mp.S, dom, key.S, visited, key.S))
	ks := v.S.SortOf(m.Key())
	v.assume(v.reach[v.curBlock], fmt.Sprintf("(=> (not %s) (forall ((k %s)) (! (=> (and (not (= %s 0)) (select %s k)) (select %s k)) :pattern ((select %s k)))))", ok, ks, mp.S, dom, visited, visited))
	val := Term{S: fmt.Sprintf("(select (select %s %s) %s)", v.heapGet(st, vl), mp.S, key.S), Sort: v.S.SortOf(m.Elem()), T: m.Elem()}
	vn := v.define("val", val.Sort, val.S)
	val.S = vn
	v.assume(v.reach[v.curBlock], v.wf(val, 2))
	nv := v.define("visited", v.heapSorts[k], fmt.Sprintf("(ite %s (store %s %s true) %s)", ok, visited, key.S, visited))
	st.heap[k] = nv
	v.tuples[i] = []Term{boolT(ok), key, val}
}

func (v *FnVC) encodeSelect(i *ssa.Select) {
	// Any ready case may be chosen. For buffered channels readiness is known from the modelled length:
	// a send is ready iff len < cap, a receive iff len > 0; the default case of a non-blocking select is taken
	// only when no case on a buffered channel is ready. Received values are havocked.
	tup := i.Type().(*types.Tuple)
	n := len(i.States)
	idx := v.freshConst("selidx", "Int")
	lo := 0
	if !i.Blocking {
		lo = -1
	}
	v.asserts = append(v.asserts, fmt.Sprintf("(and (<= %d %s) (< %s %d))", lo, idx, idx, n))
	recvOk := v.freshConst("recvok", "Bool")
	res := []Term{intT(idx), boolT(recvOk)}
	for k := 2; k < tup.Len(); k++ {
		rv := v.havocVal("selrecv", tup.At(k).Type())
		if v.C != nil && v.C.ChanNonNil && rv.Sort == "Iface" {
			v.asserts = append(v.asserts, fmt.Sprintf("(=> %s (not (= (itag %s) 0)))", recvOk, rv.S))
		}
		res = append(res, rv)
	}
	v.tuples[i] = res
	st := v.cur
	key := v.regKey("CH:len", "(Array Int Int)")
	v.S.declFun("chan_cap", "(Int) Int")
	h := v.heapGet(st, key)
	nh := h
	var notReady []string
	for k, s := range i.States {
		c := v.val(s.Chan)
		ln := fmt.Sprintf("(select %s %s)", h, c.S)
		buffered := fmt.Sprintf("(> (chan_cap %s) 0)", c.S)
		if s.Dir == types.SendOnly {
			if v.C != nil && v.C.ChanNonNil {
				if sv := v.val(s.Send); sv.Sort == "Iface" {
					v.oblige("chan-nonnil", fmt.Sprintf("(=> (= %s %d) (not (= (itag %s) 0)))", idx, k, sv.S), "value sent on a channel is a non-nil interface value (channel invariant)", i.Pos())
				}
			}
			// a send case on a closed channel is ready and panics when chosen
			v.panicCheck("send", fmt.Sprintf("(=> (= %s %d) (not (select %s %s)))", idx, k, v.heapGet(st, v.regKey("CH:closed", "(Array Int Bool)")), c.S), "send on closed channel (select case)", i.Pos())
			// chosen send: there was room
			v.narrow(fmt.Sprintf("(=> (and (= %s %d) %s) (< %s (chan_cap %s)))", idx, k, buffered, ln, c.S))
			nh = fmt.Sprintf("(ite (= %s %d) (store %s %s (+ %s 1)) %s)", idx, k, h, c.S, ln, nh)
			notReady = append(notReady, fmt.Sprintf("(=> %s (>= %s (chan_cap %s)))", buffered, ln, c.S))
		} else {
			// chosen receive on a buffered channel: an element was there (or the channel is closed)
			nh = fmt.Sprintf("(ite (and (= %s %d) %s (> %s 0)) (store %s %s (- %s 1)) %s)", idx, k, buffered, ln, h, c.S, ln, nh)
			// chanFired(c): some receive on c has completed (for a context's Done channel: the context is done)
			v.S.declFun("chan_fired", "(Int) Bool")
			v.narrow(fmt.Sprintf("(=> (= %s %d) (chan_fired %s))", idx, k, c.S))
			notReady = append(notReady, fmt.Sprintf("(=> %s (<= %s 0))", buffered, ln))
		}
	}
	if !i.Blocking && len(notReady) > 0 {
		v.narrow(fmt.Sprintf("(=> (= %s (- 1)) (and %s))", idx, strings.Join(notReady, " ")))
	}
	v.heapSet(st, key, nh)
}
