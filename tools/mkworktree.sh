#!/bin/sh
# usage: mkworktree.sh <name>  -> /tmp/mut/<name>: scratch worktree of /repo HEAD without the contract comment files
set -e
d=/tmp/mut/$1
mkdir -p /tmp/mut
git -C /repo worktree add -q --detach "$d" HEAD
cd "$d"
find . -name zz_verif_contracts.go -exec git rm -q {} + 2>/dev/null || true
git -c user.name=builder -c user.email=b@x commit -q -m "scratch base (no contract comments)" || true
echo "$d"
