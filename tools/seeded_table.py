#!/usr/bin/env python3
# usage: tools/seeded_table.py <log of tools/seeded_all.sh>  -- prints the markdown table of DESIGN.md section 0.5
import re, sys
blocks = re.split(r'(?m)^=== ', open(sys.argv[1]).read())[1:]
print('| seeded change | first failing obligation | replayed |')
print('|---|---|---|')
miss = []
for b in blocks:
    lines = b.strip().split('\n')
    sid = lines[0].strip()
    if sid == 'done' or not sid:
        continue
    fails = [re.match(r'obligation failed: (\S+(?: \S+)*?) \((sat|unknown|timeout|error)', l) for l in lines]
    names = []
    for l in lines:
        m = re.match(r'obligation failed: (.*?) \((?:sat|unknown|timeout|error|unsat)[^)]*\)', l)
        if m:
            names.append(m.group(1))
        m = re.match(r'bounded check failed: ([^:]+):', l)
        if m:
            names.append('bounded stand-in ' + m.group(1))
    viol = [l for l in lines if l.startswith('VIOLATION')]
    if any('patch does not apply' in l for l in lines):
        print('| `%s` | patch no longer applies to the current tree | – |' % sid)
        continue
    if not viol:
        miss.append(sid)
        print('| `%s` | **not caught** | – |' % sid)
        continue
    rep = 'yes' if any(not v.rstrip().endswith('no-failing-input-found') for v in viol) else 'no'
    extra = ' (+%d)' % (len(viol) - 1) if len(viol) > 1 else ''
    first = names[0] if names else '?'
    print('| `%s` | `%s`%s | %s |' % (sid, first, extra, rep))
print()
print('missed:', miss)
