#!/usr/bin/env python3
# usage: mkprompt.py <property id> <worktree name> [extra hint]  -> writes /tmp/mut/<name>.prompt and prints it
import json, sys
pid, name = sys.argv[1], sys.argv[2]
extra = sys.argv[3] if len(sys.argv) > 3 else ""
d = "/tmp/mut/" + name
for l in open("/verif/properties.jsonl"):
    p = json.loads(l)
    if p["id"] == pid:
        break
else:
    sys.exit("no such property")
t = open("/verif/tools/mutprompt.txt").read()
a = p["anchors"]
t = t.replace("{dir}", d).replace("{id}", pid).replace("{title}", p["title"]).replace("{statement}", p["statement"])
t = t.replace("{quant}", p["quantifier"]["text"]).replace("{files}", ", ".join(a["files"]))
t = t.replace("{mech}", "; ".join(m["name"] + " @ " + m["where"] for m in a["mechanism"]))
if extra:
    t += "\n" + extra + "\n"
open(d + ".prompt", "w").write(t)
print(t)
