#!/usr/bin/env python3
# Adds breaks / needs_to_manifest / ran to seeded/<id>/meta.json from the sub-agent's notes (idempotent).
import json, os, re, sys
root = '/verif/seeded'
for d in sorted(os.listdir(root)):
    mp = os.path.join(root, d, 'meta.json')
    if not os.path.exists(mp):
        continue
    m = json.load(open(mp))
    if 'needs_to_manifest' in m and 'breaks' in m and 'ran' in m:
        continue
    notes = ''
    np = os.path.join(root, d, 'agent_notes.md')
    if os.path.exists(np):
        notes = open(np).read()
    sec = ''
    mm = re.search(r'(?im)^#+\s*(what is needed[^\n]*|what it needs[^\n]*|needs[^\n]*manifest[^\n]*)\n(.*?)(?=^#+\s|\Z)', notes, re.S | re.M)
    if mm:
        sec = ' '.join(mm.group(2).split())
    m['breaks'] = m.get('property', d.split('-')[0])
    m['needs_to_manifest'] = sec or 'see agent_notes.md'
    m['ran'] = [
        'go build ./framework/... ./internal/... . ./cmd/maddy/... (with the change)',
        'go test -vet=off -count=1 ./framework/... ./internal/... (with the change, demo moved aside): no failing test',
        'go test -run Demo <demo package> with the change: FAIL',
        'go test -run Demo <demo package> without the change: ok',
        'tools/seeded_run.sh <id>: the check of the property against /repo with the patch applied (result recorded in DESIGN.md)',
    ]
    json.dump(m, open(mp, 'w'), indent=1)
    print('enriched', d, '|', m['needs_to_manifest'][:100])
