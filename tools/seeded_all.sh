#!/bin/sh
# usage: tools/seeded_all.sh [out-file]  -- runs every seeded change against its property's check in a scratch worktree
# of /repo (HEAD) under /tmp, so /repo itself is not touched; removes the worktree afterwards. One block per change.
export GOFLAGS=-mod=mod GOPROXY=off GOSUMDB=off GOTOOLCHAIN=local
out=${1:-/tmp/seeded_all.log}
wt=/tmp/seedrun.$$
git -C /repo worktree add -q --detach $wt HEAD || exit 2
: > $out
for d in /verif/seeded/*/; do
  id=$(basename $d); p=$(echo $id | cut -d- -f1)
  echo "=== $id" >> $out
  if ! git -C $wt apply $d/patch.diff 2>/dev/null; then echo "patch does not apply" >> $out; continue; fi
  (cd /verif && bin/govc check -repo $wt -no-evidence -tier quick $p 2>&1 | grep "VIOLATION\|obligation failed\|quick:\|BROKEN\|KNOWN" | cut -c1-260 | head -8) >> $out
  git -C $wt checkout -q -- . ; git -C $wt clean -fdq
done
git -C /repo worktree remove --force $wt; git -C /repo worktree prune
echo done >> $out
