#!/bin/sh
# usage: tools/seeded_all.sh [out-file] [workers]
# Runs every seeded change against its property's check. /repo and the live /verif are not touched: the checks run
# from a snapshot of /verif (contracts, prelude, replay templates, known findings, the built tool) against scratch
# worktrees of /repo HEAD under /tmp (one per worker), all removed afterwards. One block per change in the out file.
export GOFLAGS=-mod=mod GOPROXY=off GOSUMDB=off GOTOOLCHAIN=local
out=${1:-/tmp/seeded_all.log}
nw=${2:-4}
snap=/tmp/vsnap.$$
mkdir -p $snap
cp -r /verif/bin /verif/contracts /verif/prelude /verif/replay_tmpl /verif/bounded /verif/known_findings.json /verif/properties.jsonl $snap/
ids=$(ls -d /verif/seeded/*/ | xargs -n1 basename)
k=0
pids=""
while [ $k -lt $nw ]; do
  wt=/tmp/seedrun.$$.$k
  git -C /repo worktree add -q --detach $wt HEAD || exit 2
  (
    i=0
    for id in $ids; do
      if [ $((i % nw)) -eq $k ]; then
        p=$(echo $id | cut -d- -f1)
        part=$snap/part.$id
        echo "=== $id" > $part
        if git -C $wt apply /verif/seeded/$id/patch.diff 2>/dev/null; then
          (cd $snap && bin/govc check -repo $wt -verif $snap -no-evidence -tier quick $p 2>&1 | grep "VIOLATION\|obligation failed\|bounded check failed\|quick:\|BROKEN\|KNOWN" | cut -c1-260 | head -8) >> $part
          git -C $wt checkout -q -- . ; git -C $wt clean -fdq
        else
          echo "patch does not apply" >> $part
        fi
      fi
      i=$((i + 1))
    done
  ) &
  pids="$pids $!"
  k=$((k + 1))
done
wait $pids
: > $out
for id in $ids; do cat $snap/part.$id >> $out 2>/dev/null; done
k=0
while [ $k -lt $nw ]; do git -C /repo worktree remove --force /tmp/seedrun.$$.$k; k=$((k + 1)); done
git -C /repo worktree prune
rm -rf $snap
echo done >> $out
