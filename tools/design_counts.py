#!/usr/bin/env python3
# Refreshes columns 2 and 3 (functions under contract, obligations) of the table in DESIGN.md section 0.2 from evidence/.
import json, re
p = '/verif/DESIGN.md'
s = open(p).read()
def repl(m):
    pid = m.group(1)
    try:
        c = json.load(open('/verif/evidence/%s.json' % pid))['coverage']
    except Exception:
        return m.group(0)
    f = m.group(2)
    extra = ''
    mm = re.match(r'\s*\d+(.*)', f)
    if mm:
        extra = mm.group(1).rstrip()
    return '| %s | %d%s | %d |' % (pid, len(c['functions_under_contract']), extra, c['obligations'])
s2 = re.sub(r'(?m)^\| (C\d\d) \|([^|]*)\|\s*\d+\s*\|', repl, s)
open(p, 'w').write(s2)
print('updated' if s2 != s else 'unchanged')
