#!/bin/sh
# usage: tools/seeded_run.sh <seeded dir name> [property]   -- applies the seeded patch to /repo, runs the check, reverts.
d=/verif/seeded/$1
p=${2:-$(echo "$1" | cut -d- -f1)}
[ -f "$d/patch.diff" ] || { echo "no patch in $d"; exit 2; }
cd /repo || exit 2
git diff --quiet || { echo "/repo has uncommitted changes"; exit 2; }
git apply "$d/patch.diff" || { echo "patch does not apply"; exit 2; }
(cd /verif && bin/govc check -no-evidence -tier quick "$p" 2>&1 | grep "VIOLATION\|obligation failed\|bounded check failed\|quick:\|BROKEN\|KNOWN" | cut -c1-300 | head -12)
git checkout -- . && git status --short | head -3
