#!/bin/sh
# Runs every claimed check (quick) and every self-test corpus; prints one line per property.
cd /verif
for p in $(python3 -c "import json;print(' '.join(c['property_id'] for c in json.load(open('MANIFEST.json'))['checks']))") "$@"; do
  out=$(./check $p quick 2>&1); rc=$?
  st=$(bin/govc selftest $p 2>&1 | tail -1)
  echo "$p rc=$rc $(echo "$out" | tail -1) | $st"
  [ $rc -ne 0 ] && echo "$out" | grep "VIOLATION\|BROKEN\|obligation failed" | head -5
done
