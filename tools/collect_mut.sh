#!/bin/sh
# usage: collect_mut.sh <worktree-name> <property> <seed-id>
# Confirms a sub-agent's mutation in its scratch worktree (build, existing tests, demo both ways) and stores it under /verif/seeded/<seed-id>/.
export GOFLAGS=-mod=mod GOPROXY=off GOSUMDB=off GOTOOLCHAIN=local
d=/tmp/mut/$1; prop=$2; id=$3
out=/verif/seeded/$id
mkdir -p $out
cd $d || exit 1
demo=$(git status --porcelain | grep zz_demo_test.go | awk '{print $2}')
git diff -- . ':(exclude)*zz_demo_test.go' > $out/patch.diff
cp MUTATION_NOTES.md $out/agent_notes.md 2>/dev/null
[ -n "$demo" ] && cp $demo $out/zz_demo_test.go
demopkg=./$(dirname "$demo")
log=$out/confirm.log
: > $log
echo "== build with change" >> $log
go build ./framework/... ./internal/... . ./cmd/maddy/... >> $log 2>&1; b=$?
echo "build rc=$b" >> $log
echo "== existing tests with change (demo moved aside)" >> $log
mv $demo /tmp/mut/$1.demo.go
go test -vet=off -count=1 ./framework/... ./internal/... 2>&1 | grep -v "no test files" >> $log; 
# internal/table TestFileReload is flaky on the unchanged tree as well (timing); it is not in the stable baseline
t=$(grep "^FAIL\|^--- FAIL" $log | grep -v "TestFileReload\|internal/table\|^FAIL$" | wc -l)
echo "existing failing lines=$t" >> $log
mv /tmp/mut/$1.demo.go $demo
echo "== demo with change (must fail)" >> $log
go test -vet=off -count=1 -run 'ZZDemo|Demo' $demopkg >> $log 2>&1; dw=$?
echo "demo-with-change rc=$dw" >> $log
git diff > /tmp/mut/$1.confirm.patch
git checkout -q -- $(git diff --name-only)
echo "== demo without change (must pass)" >> $log
go test -vet=off -count=1 -run 'ZZDemo|Demo' $demopkg >> $log 2>&1; dn=$?
echo "demo-without-change rc=$dn" >> $log
git apply /tmp/mut/$1.confirm.patch
python3 - <<PY
import json
json.dump({"property":"$prop","worktree":"$d","demo":"$demo","build_rc":$b,"existing_test_fail_lines":$t,"demo_with_change_rc":$dw,"demo_without_change_rc":$dn,
 "confirmed": ($b==0 and $t==0 and $dw!=0 and $dn==0)}, open("$out/meta.json","w"), indent=1)
print(open("$out/meta.json").read())
PY
