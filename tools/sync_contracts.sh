#!/bin/sh
# Copies the contract mirror into /repo (comment-only files under the verif build tag) and commits them there.
cd /verif/contracts || exit 1
find . -name zz_verif_contracts.go | while read f; do
  mkdir -p "/repo/$(dirname "$f")"
  cp "$f" "/repo/$f"
done
cd /repo && git add -A '*zz_verif_contracts.go' && (git diff --cached --quiet || git commit -q -m "verif: contract comments (build tag verif, comment-only)")
git -C /repo log --oneline | head -3
