#!/bin/sh
# Runs every claimed check (quick), no self-tests; one line per property.
cd /verif
for p in $(python3 -c "import json;print(' '.join(c['property_id'] for c in json.load(open('MANIFEST.json'))['checks']))") "$@"; do
  out=$(./check $p quick 2>&1); rc=$?
  echo "$p rc=$rc $(echo "$out" | tail -1)"
  [ $rc -ne 0 ] && echo "$out" | grep "VIOLATION\|BROKEN\|obligation failed" | cut -c1-220 | head -6
done
