#!/usr/bin/env python3
"""Regenerates /verif/MANIFEST.json from tools/claims.json (per-property texts) and validates it."""
import json, os, sys, subprocess
here = os.path.dirname(os.path.abspath(__file__))
root = os.path.dirname(here)
claims = json.load(open(os.path.join(here, "claims.json")))
props = [json.loads(l)["id"] for l in open(os.path.join(root, "properties.jsonl"))]
baseline = json.load(open("/root/.vp/BASELINE.json"))["cmd"]
try:
    commits = subprocess.check_output(["git", "-C", "/repo", "log", "--format=%h %s"], text=True).splitlines()
except Exception:
    commits = []
hook_commits = [c.split()[0] for c in commits if c.split(" ", 1)[1].startswith("verif:")]
checks, na = [], []
for p in props:
    c = claims.get(p, {})
    if c.get("claimed"):
        checks.append({
            "property_id": p,
            "quick_cmd": "./check %s quick" % p,
            "thorough_cmd": "./check %s thorough" % p,
            "evidence_file": "/verif/evidence/%s.json" % p,
            "replay_cmd_template": "./check --replay {path}",
            "engine": "govc",
            "level_claimed": {"category": "proof", "text": c["text"], "design_ref": c.get("design_ref", "DESIGN.md section 7 " + p)},
            "level_note": c["note"],
            "technique": c.get("technique", "contract-based deductive verification: weakest-precondition VCs over go/ssa of the real functions, discharged by z3/cvc5"),
        })
    else:
        na.append({"property_id": p, "reason": c.get("reason", "no check built yet for this property (see DESIGN.md)")})
m = {
    "version": 1,
    "setup_cmd": "./setup.sh",
    "hooks": {
        "guard": "verif",
        "enable": "go build -tags verif (contract files zz_verif_contracts.go are comment-only and carry //go:build verif); the checks load /repo with -tags=verif",
        "baseline_off_cmd": baseline,
        "source_commits": hook_commits,
        "add_only": True,
    },
    "engines": [{"name": "govc", "path": "/verif/govc", "serves_properties": [c["property_id"] for c in checks],
                 "kind_free_text": "home-made deductive verifier for Go: contracts in //@ comments, VC generation over go/ssa, SMT back ends z3 5.1.0, z3 4.8.12, cvc5 1.0"}],
    "checks": checks,
    "not_applicable": na,
    "notes": "Contracts live in /verif/contracts/<pkg>/zz_verif_contracts.go (mirrored into /repo under the verif build tag); defects found are in known_findings.json; see DESIGN.md.",
}
json.dump(m, open(os.path.join(root, "MANIFEST.json"), "w"), indent=1)
print("MANIFEST.json: %d checks, %d not applicable" % (len(checks), len(na)))
try:
    import jsonschema
    jsonschema.validate(m, json.load(open("/root/.vp/MANIFEST.schema.json")))
    for c in checks:
        ev = c["evidence_file"]
        if os.path.exists(ev):
            jsonschema.validate(json.load(open(ev)), json.load(open("/root/.vp/EVIDENCE.schema.json")))
    print("schemas ok")
except ImportError:
    print("jsonschema not available; not validated")
