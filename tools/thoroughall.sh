#!/bin/sh
# Runs every claimed check in the thorough tier (cross-check on all three back ends + self-test corpus); one line per property.
cd /verif
out=${1:-/tmp/thorough_all.log}
: > $out
for p in $(python3 -c "import json;print(' '.join(c['property_id'] for c in json.load(open('MANIFEST.json'))['checks']))"); do
  t0=$(date +%s)
  o=$(./check $p thorough 2>&1); rc=$?
  t1=$(date +%s)
  echo "$p rc=$rc $((t1 - t0))s $(echo "$o" | grep "thorough:" | tail -1)" >> $out
  [ $rc -ne 0 ] && echo "$o" | grep "VIOLATION\|BROKEN\|obligation failed\|UNEXPECTED\|skipped" | cut -c1-260 | head -8 >> $out
done
echo done >> $out
