package dmarc

// Replay for C07 obligations: concrete search over small input spaces against the real functions, with the
// contract clauses re-evaluated concretely (spec functions bound to the real library functions).

import (
	"context"
	"errors"
	"net"
	"strings"
	"testing"

	"github.com/emersion/go-msgauth/authres"
	"github.com/emersion/go-msgauth/dmarc"
	"golang.org/x/net/publicsuffix"
)

type verifResolver map[string]struct {
	recs []string
	err  error
}

func (r verifResolver) LookupTXT(_ context.Context, name string) ([]string, error) {
	e := r[name]
	return e.recs, e.err
}

func verifHard(err error) bool {
	if err == nil {
		return false
	}
	d, ok := err.(*net.DNSError)
	return !(ok && d.IsNotFound)
}

func TestVerifReplayFetchRecord(t *testing.T) {
	outcomes := map[string]struct {
		recs []string
		err  error
	}{
		"record":   {[]string{"v=DMARC1; p=reject"}, nil},
		"none":     {nil, nil},
		"nxdomain": {nil, &net.DNSError{Err: "no such host", IsNotFound: true}},
		"servfail": {nil, &net.DNSError{Err: "server misbehaving", IsTemporary: true}},
		"other":    {nil, errors.New("broken resolver")},
	}
	for n1, o1 := range outcomes {
		for n2, o2 := range outcomes {
			r := verifResolver{"_dmarc.sub.example.com.": o1, "_dmarc.example.com.": o2}
			_, rec, err := FetchRecord(context.Background(), r, "sub.example.com")
			switch {
			case verifHard(o1.err):
				if err != o1.err || rec != nil {
					t.Fatalf("REPRODUCED: first lookup %s: want its error, got rec=%v err=%v", n1, rec, err)
				}
			case len(o1.recs) == 0 && verifHard(o2.err):
				if err != o2.err || rec != nil {
					t.Fatalf("REPRODUCED: first lookup %s, organizational-domain lookup %s: want the lookup error, got rec=%v err=%v", n1, n2, rec, err)
				}
			case len(o1.recs) == 0 && len(o2.recs) == 0:
				if err != nil || rec != nil {
					t.Fatalf("REPRODUCED: no record anywhere (%s,%s): got rec=%v err=%v", n1, n2, rec, err)
				}
			default:
				if err != nil || rec == nil {
					t.Fatalf("REPRODUCED: record published (%s,%s): got rec=%v err=%v", n1, n2, rec, err)
				}
			}
		}
	}
}

func verifAligned(from, d string, mode dmarc.AlignmentMode) bool {
	if mode == dmarc.AlignmentStrict {
		return strings.EqualFold(from, d)
	}
	tld, _ := publicsuffix.PublicSuffix(from)
	if strings.EqualFold(from, tld) {
		return strings.EqualFold(from, d)
	}
	a, err1 := publicsuffix.EffectiveTLDPlusOne(from)
	b, err2 := publicsuffix.EffectiveTLDPlusOne(d)
	return err1 == nil && err2 == nil && strings.EqualFold(a, b)
}

var verifDomains = []string{"example.org", "sub.example.org", "other.example.org", "EXAMPLE.org", "example.com", "co.uk", ""}

func TestVerifReplayIsAligned(t *testing.T) {
	for _, f := range verifDomains {
		for _, d := range verifDomains {
			for _, m := range []dmarc.AlignmentMode{dmarc.AlignmentStrict, dmarc.AlignmentRelaxed} {
				if isAligned(f, d, m) != verifAligned(f, d, m) {
					t.Fatalf("REPRODUCED: isAligned(%q, %q, %q) = %v", f, d, m, isAligned(f, d, m))
				}
			}
		}
	}
}

func verifVerdict(from string, rec *Record, rs []authres.Result) (v authres.ResultValue, anyD, anyS bool) {
	hasD, tempD := false, false
	last := authres.ResultValue("")
	for _, r := range rs {
		switch x := r.(type) {
		case *authres.DKIMResult:
			hasD = true
			if verifAligned(from, x.Domain, rec.DKIMAlignment) {
				anyD = anyD || x.Value == authres.ResultPass
				tempD = tempD || x.Value == authres.ResultTempError
			}
		case *authres.SPFResult:
			last = x.Value
			id := x.From
			if id == "" {
				id = x.Helo
			}
			if verifAligned(from, id, rec.SPFAlignment) && x.Value == authres.ResultPass {
				anyS = true
			}
		}
	}
	switch {
	case !hasD || last == "":
		return authres.ResultNone, anyD, anyS
	case !anyD && ((tempD && !anyS) || last == authres.ResultTempError):
		return authres.ResultTempError, anyD, anyS
	case anyD || anyS:
		return authres.ResultPass, anyD, anyS
	}
	return authres.ResultFail, anyD, anyS
}

func verifResultSets() [][]authres.Result {
	vals := []authres.ResultValue{authres.ResultPass, authres.ResultFail, authres.ResultNone, authres.ResultTempError}
	doms := []string{"example.org", "sub.example.org", "example.com"}
	var out [][]authres.Result
	out = append(out, nil)
	for _, dv := range vals {
		for _, dd := range doms {
			for _, sv := range vals {
				for _, sd := range doms {
					out = append(out, []authres.Result{&authres.DKIMResult{Value: dv, Domain: dd}, &authres.SPFResult{Value: sv, From: sd, Helo: "mx." + sd}})
					out = append(out, []authres.Result{&authres.SPFResult{Value: sv, Helo: sd}, &authres.DKIMResult{Value: authres.ResultFail, Domain: "example.com"}, &authres.DKIMResult{Value: dv, Domain: dd}})
				}
			}
			out = append(out, []authres.Result{&authres.DKIMResult{Value: dv, Domain: dd}})
		}
	}
	return out
}

func TestVerifReplayEvaluate(t *testing.T) {
	for _, from := range []string{"example.org", "sub.example.org"} {
		for _, ad := range []dmarc.AlignmentMode{dmarc.AlignmentStrict, dmarc.AlignmentRelaxed} {
			for _, as := range []dmarc.AlignmentMode{dmarc.AlignmentStrict, dmarc.AlignmentRelaxed} {
				rec := &Record{DKIMAlignment: ad, SPFAlignment: as, Policy: dmarc.PolicyReject}
				for _, rs := range verifResultSets() {
					got := EvaluateAlignment(from, rec, rs)
					want, anyD, anyS := verifVerdict(from, rec, rs)
					if got.Authres.Value != want || got.DKIMAligned != anyD || got.SPFAligned != anyS || got.Authres.From != from {
						t.Fatalf("REPRODUCED: EvaluateAlignment(from=%q adkim=%q aspf=%q results=%v) = %+v, want verdict %q dkimAligned=%v spfAligned=%v", from, ad, as, verifFmt(rs), got.Authres, want, anyD, anyS)
					}
				}
			}
		}
	}
}

func verifFmt(rs []authres.Result) []string {
	var out []string
	for _, r := range rs {
		switch x := r.(type) {
		case *authres.DKIMResult:
			out = append(out, "dkim="+string(x.Value)+"/"+x.Domain)
		case *authres.SPFResult:
			out = append(out, "spf="+string(x.Value)+"/"+x.From+"/"+x.Helo)
		}
	}
	return out
}

func TestVerifReplayApply(t *testing.T) {
	hundred := 100
	rs := []authres.Result{&authres.DKIMResult{Value: authres.ResultFail, Domain: "example.com"}, &authres.SPFResult{Value: authres.ResultFail, From: "example.com"}}
	pass := []authres.Result{&authres.DKIMResult{Value: authres.ResultPass, Domain: "example.org"}, &authres.SPFResult{Value: authres.ResultFail, From: "example.com"}}
	type tc struct {
		data    verifyData
		rs      []authres.Result
		policy  Policy
		verdict authres.ResultValue
	}
	recs := func(p, sp Policy, pct *int) *Record { return &Record{Policy: p, SubdomainPolicy: sp, Percent: pct} }
	cases := []tc{
		{verifyData{recordErr: &net.DNSError{IsTemporary: true}, fromDomain: "example.org"}, rs, dmarc.PolicyReject, authres.ResultTempError},
		{verifyData{recordErr: &net.DNSError{}, fromDomain: "example.org"}, rs, dmarc.PolicyNone, authres.ResultPermError},
		{verifyData{recordErr: errors.New("x"), fromDomain: "example.org"}, rs, dmarc.PolicyNone, authres.ResultPermError},
		{verifyData{fromDomain: "example.org"}, rs, dmarc.PolicyNone, authres.ResultNone},
	}
	for _, p := range []Policy{dmarc.PolicyNone, dmarc.PolicyQuarantine, dmarc.PolicyReject} {
		for _, sp := range []Policy{"", dmarc.PolicyNone, dmarc.PolicyQuarantine, dmarc.PolicyReject} {
			for _, pct := range []*int{nil, &hundred} {
				cases = append(cases, tc{verifyData{fromDomain: "example.org", policyDomain: "example.org", record: recs(p, sp, pct)}, rs, p, authres.ResultFail})
				cases = append(cases, tc{verifyData{fromDomain: "example.org", policyDomain: "EXAMPLE.org", record: recs(p, sp, pct)}, rs, p, authres.ResultFail})
				want := p
				if sp != "" {
					want = sp
				}
				cases = append(cases, tc{verifyData{fromDomain: "sub.example.org", policyDomain: "example.org", record: recs(p, sp, pct)}, rs, want, authres.ResultFail})
				cases = append(cases, tc{verifyData{fromDomain: "example.org", policyDomain: "example.org", record: recs(p, sp, pct)}, pass, dmarc.PolicyNone, authres.ResultPass})
				cases = append(cases, tc{verifyData{fromDomain: "example.org", policyDomain: "example.org", record: recs(p, sp, pct)}, nil, dmarc.PolicyNone, authres.ResultNone})
			}
		}
	}
	for i, c := range cases {
		for rep := 0; rep < 20; rep++ {
			v := &Verifier{fetchCh: make(chan verifyData, 1)}
			v.fetchCh <- c.data
			res, pol := v.Apply(c.rs)
			if pol != c.policy || res.Authres.Value != c.verdict {
				t.Fatalf("REPRODUCED: case %d (from=%q policyDomain=%q recordErr=%v record=%+v results=%v): verdict %q action %q, want %q / %q", i, c.data.fromDomain, c.data.policyDomain, c.data.recordErr, c.data.record, verifFmt(c.rs), res.Authres.Value, pol, c.verdict, c.policy)
			}
		}
	}
}
