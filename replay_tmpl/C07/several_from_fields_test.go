package dmarc

import (
	"bufio"
	"strings"
	"testing"

	"github.com/emersion/go-message/textproto"
)

// Replay for C07 (ExtractFromDomain): a header with several From fields must be refused - also when the first of
// them is empty.
func TestVerifReplaySeveralFromFields(t *testing.T) {
	for _, raw := range []string{
		"From:\r\nFrom: <attacker@evil.example>\r\n\r\n",
		"From: <a@example.org>\r\nFrom:\r\n\r\n",
		"From: <a@example.org>\r\nFrom: <b@example.com>\r\n\r\n",
	} {
		hdr, err := textproto.ReadHeader(bufio.NewReader(strings.NewReader(raw)))
		if err != nil {
			t.Fatal(err)
		}
		n := 0
		for f := hdr.FieldsByKey("From"); f.Next(); {
			n++
		}
		dom, err := ExtractFromDomain(hdr)
		if n != 1 && err == nil {
			t.Errorf("REPRODUCED: header %q has %d From fields, ExtractFromDomain returned %q without error", raw, n, dom)
		}
	}
}
