package dmarc

import (
	"bufio"
	"context"
	"strings"
	"testing"

	"github.com/emersion/go-message/textproto"
	"github.com/emersion/go-msgauth/authres"
	"github.com/foxcpp/go-mockdns"
)

// The policy is published only at the organizational domain and requests
// strict alignment. Alignment must still be judged against the RFC5322.From
// domain (sub.example.org), not against the domain the record was found at.
func TestDemoStrictAlignmentWithOrgDomainPolicy(t *testing.T) {
	zones := map[string]mockdns.Zone{
		"_dmarc.example.org.": {
			TXT: []string{"v=DMARC1; p=reject; adkim=s; aspf=s"},
		},
	}
	run := func(results []authres.Result) (EvalResult, Policy) {
		t.Helper()
		v := NewVerifier(&mockdns.Resolver{Zones: zones})
		defer v.Close()
		hdr, err := textproto.ReadHeader(bufio.NewReader(strings.NewReader("From: hello@sub.example.org\r\n\r\n")))
		if err != nil {
			t.Fatal(err)
		}
		v.FetchRecord(context.Background(), hdr)
		return v.Apply(results)
	}

	// DKIM d=example.org is NOT identical to sub.example.org => strict
	// alignment fails, published policy (p, since sp is absent) is reject.
	res, policy := run([]authres.Result{
		&authres.DKIMResult{Value: authres.ResultPass, Domain: "example.org"},
		&authres.SPFResult{Value: authres.ResultPass, From: "example.org", Helo: "mx.example.org"},
	})
	if res.Authres.Value != authres.ResultFail {
		t.Errorf("org-domain identifiers under strict mode: want DMARC 'fail', got '%v'", res.Authres.Value)
	}
	if policy != PolicyReject {
		t.Errorf("org-domain identifiers under strict mode: want policy 'reject', got '%v'", policy)
	}
	if res.Authres.From != "sub.example.org" {
		t.Errorf("want header.from=sub.example.org, got %q", res.Authres.From)
	}

	// DKIM d=sub.example.org is identical to the From domain => pass.
	res, policy = run([]authres.Result{
		&authres.DKIMResult{Value: authres.ResultPass, Domain: "sub.example.org"},
		&authres.SPFResult{Value: authres.ResultNone, From: "example.net", Helo: "mx.example.net"},
	})
	if res.Authres.Value != authres.ResultPass {
		t.Errorf("exact identifier under strict mode: want DMARC 'pass', got '%v'", res.Authres.Value)
	}
	if policy != PolicyNone {
		t.Errorf("exact identifier under strict mode: want policy 'none', got '%v'", policy)
	}
}
