// Replay oracle (injected with go test -overlay): the demonstration a sub-agent wrote for the seeded change
// C07-helo-fallback-alignment; it passes on the unchanged tree and fails when the property is broken that way.
package dmarc

import (
	"bufio"
	"context"
	"strings"
	"testing"

	"github.com/emersion/go-message/textproto"
	"github.com/emersion/go-msgauth/authres"
	"github.com/emersion/go-msgauth/dmarc"
	"github.com/foxcpp/go-mockdns"
)

// The SPF identity used for DMARC alignment is the MAIL FROM domain; HELO is
// used only if MAIL FROM is empty (null reverse-path). A message with
// SPF=pass for an unrelated MAIL FROM domain must not obtain DMARC pass just
// because the (client-chosen) HELO name is aligned with the RFC5322.From
// domain.
func TestDemoSPFHeloDoesNotAlignWhenMailFromPresent(t *testing.T) {
	for _, mode := range []AlignmentMode{dmarc.AlignmentRelaxed, dmarc.AlignmentStrict} {
		res := EvaluateAlignment("example.org", &Record{SPFAlignment: mode}, []authres.Result{
			&authres.DKIMResult{Value: authres.ResultNone},
			&authres.SPFResult{Value: authres.ResultPass, From: "attacker.test", Helo: "example.org"},
		})
		if res.Authres.Value != authres.ResultFail {
			t.Errorf("aspf=%q: expected DMARC 'fail', got '%v'", mode, res.Authres.Value)
		}
		if res.SPFAligned {
			t.Errorf("aspf=%q: SPF must not be reported as aligned", mode)
		}
	}

	// Null reverse-path: HELO is the SPF identity (unchanged behaviour).
	res := EvaluateAlignment("example.org", &Record{}, []authres.Result{
		&authres.DKIMResult{Value: authres.ResultNone},
		&authres.SPFResult{Value: authres.ResultPass, From: "", Helo: "mx.example.org"},
	})
	if res.Authres.Value != authres.ResultPass {
		t.Errorf("null sender: expected DMARC 'pass', got '%v'", res.Authres.Value)
	}
}

func TestDemoSPFHeloRejectPolicyApplied(t *testing.T) {
	v := NewVerifier(&mockdns.Resolver{Zones: map[string]mockdns.Zone{
		"_dmarc.example.org.": {
			TXT: []string{"v=DMARC1; p=reject"},
		},
	}})
	defer v.Close()

	hdr, err := textproto.ReadHeader(bufio.NewReader(strings.NewReader("From: ceo@example.org\r\n\r\n")))
	if err != nil {
		t.Fatal(err)
	}
	v.FetchRecord(context.Background(), hdr)
	evalRes, policy := v.Apply([]authres.Result{
		&authres.DKIMResult{Value: authres.ResultNone},
		&authres.SPFResult{Value: authres.ResultPass, From: "attacker.test", Helo: "mail.example.org"},
	})
	if evalRes.Authres.Value != authres.ResultFail {
		t.Errorf("expected DMARC 'fail', got '%v'", evalRes.Authres.Value)
	}
	if policy != PolicyReject {
		t.Errorf("expected applied policy to be '%v', got '%v'", PolicyReject, policy)
	}
}
