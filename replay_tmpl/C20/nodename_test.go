package parser

import (
	"strings"
	"testing"
	"unicode"
)

// wellFormedName is the directive-name rule of property C20, stated
// independently of validateNodeName: not empty, does not start with a digit,
// consists only of letters, digits and '.', '-', '_'.
func wellFormedName(s string) bool {
	if s == "" {
		return false
	}
	for i, ch := range s {
		if i == 0 && unicode.IsDigit(ch) {
			return false
		}
		if !unicode.IsLetter(ch) && !unicode.IsDigit(ch) && ch != '.' && ch != '-' && ch != '_' {
			return false
		}
	}
	return true
}

func checkNames(t *testing.T, nodes []Node) {
	for _, n := range nodes {
		if !wellFormedName(n.Name) {
			t.Errorf("%s:%d: parsed tree contains ill-formed directive name %q", n.File, n.Line, n.Name)
		}
		checkNames(t, n.Children)
	}
}

// TestDemoDirectiveNameStartsWithNonASCIIDigit: either Read reports an error
// or every directive name in the returned tree is well-formed. A directive
// name may not start with a digit, and that includes the decimal digits
// outside of ASCII (unicode.IsDigit, category Nd), which take more than one
// byte in UTF-8.
func TestDemoDirectiveNameStartsWithNonASCIIDigit(t *testing.T) {
	inputs := []string{
		"٣abc whatever",                    // ARABIC-INDIC DIGIT THREE
		"３w whatever",                      // FULLWIDTH DIGIT THREE
		"a {\n\t५child arg\n}",             // DEVANAGARI DIGIT FIVE, nested
		"(snip) {\n\t๒x 1\n}\nimport snip", // THAI DIGIT TWO, through a snippet
		"1w whatever",                      // the ASCII case of the shipped test-suite
	}
	for _, in := range inputs {
		tree, err := Read(strings.NewReader(in), "demo")
		if err != nil {
			continue
		}
		t.Logf("input %q was accepted", in)
		checkNames(t, tree)
	}
}
