// Replay oracle (injected with go test -overlay): the demonstration a sub-agent wrote for the seeded change
// C20-escaped-newline-line-count; it passes on the unchanged tree and fails when the property is broken that way.
package parser

import (
	"reflect"
	"strings"
	"testing"
)

// demoQuote prints a token in the quoted syntax of the lexer: only the double
// quote needs escaping, everything else (including line breaks and
// backslashes not followed by a quote) is taken literally.
func demoQuote(s string) string {
	return `"` + strings.ReplaceAll(s, `"`, `\"`) + `"`
}

// demoPrint prints a tree in canonical syntax: one directive per line, every
// argument quoted, blocks opened on the header line and closed on their own
// line.
func demoPrint(sb *strings.Builder, nodes []Node, indent int) {
	for _, n := range nodes {
		sb.WriteString(strings.Repeat("\t", indent))
		sb.WriteString(n.Name)
		for _, a := range n.Args {
			sb.WriteString(" ")
			sb.WriteString(demoQuote(a))
		}
		if n.Children != nil {
			sb.WriteString(" {\n")
			demoPrint(sb, n.Children, indent+1)
			sb.WriteString(strings.Repeat("\t", indent))
			sb.WriteString("}")
		}
		sb.WriteString("\n")
	}
}

func demoStrip(nodes []Node) []Node {
	if nodes == nil {
		return nil
	}
	out := make([]Node, 0, len(nodes))
	for _, n := range nodes {
		n.File = ""
		n.Line = 0
		n.Children = demoStrip(n.Children)
		out = append(out, n)
	}
	return out
}

// A quoted argument that contains a backslash immediately followed by a line
// break must not disturb the line accounting of the tokens after it.
func TestDemoQuotedBackslashNewline(t *testing.T) {
	input := "first \"x\\\ny\"\nsecond arg\n"

	got, err := Read(strings.NewReader(input), "demo")
	if err != nil {
		t.Fatalf("unexpected error: %v", err)
	}
	want := []Node{
		{Name: "first", Args: []string{"x\\\ny"}},
		{Name: "second", Args: []string{"arg"}},
	}
	if !reflect.DeepEqual(demoStrip(got), want) {
		t.Fatalf("wrong tree:\n got: %#v\nwant: %#v", demoStrip(got), want)
	}
	if got[1].Line != 3 {
		t.Errorf("second directive reported at line %d, want 3", got[1].Line)
	}
}

// Printing a parsed tree in canonical syntax and parsing it again yields the
// same tree.
func TestDemoRoundTrip(t *testing.T) {
	tree := []Node{
		{Name: "hostname", Args: []string{"example.org"}},
		{Name: "banner", Args: []string{"line one \\\nline two", "tail"}, Children: []Node{
			{Name: "inner", Args: []string{"a b", `q"q`}},
		}},
		{Name: "after", Args: []string{"1"}, Children: []Node{}},
	}

	var sb strings.Builder
	demoPrint(&sb, tree, 0)

	first, err := Read(strings.NewReader(sb.String()), "demo")
	if err != nil {
		t.Fatalf("canonical text does not parse: %v\n%s", err, sb.String())
	}
	if !reflect.DeepEqual(demoStrip(first), tree) {
		t.Fatalf("parse(print(tree)) != tree:\n got: %#v\nwant: %#v", demoStrip(first), tree)
	}

	var sb2 strings.Builder
	demoPrint(&sb2, first, 0)
	second, err := Read(strings.NewReader(sb2.String()), "demo")
	if err != nil {
		t.Fatalf("second parse failed: %v", err)
	}
	if !reflect.DeepEqual(demoStrip(first), demoStrip(second)) {
		t.Fatalf("round trip changed the tree:\n got: %#v\nwant: %#v", demoStrip(second), demoStrip(first))
	}
}
