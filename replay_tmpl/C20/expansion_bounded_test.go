package parser

import (
	"fmt"
	"os"
	"strings"
	"testing"
)

// BOUNDED stand-in (not a proof) for the part of C20 that is not a per-function contract: a tree returned without error
// contains no unexpanded import, snippet or macro definition at any depth (the expansion passes recurse over the tree;
// a tree-inductive postcondition is not within the generator's reach). Every configuration of up to 6 lines over the
// line alphabet below is parsed; Read must not panic, and a successful Read must return a fully expanded tree.
func TestVerifBoundedExpansionComplete(t *testing.T) {
	lines := []string{"(a) {", "b {", "import a", "}", "$(m) = 1 2", "x $(m)"}
	maxLines := 6
	if os.Getenv("VERIF_BOUNDED_SMALL") != "" {
		maxLines = 5
	}
	n, bad := 0, 0
	var walk func(nodes []Node, depth int) string
	walk = func(nodes []Node, depth int) string {
		if depth > 64 {
			return "nesting deeper than 64"
		}
		for _, nd := range nodes {
			if nd.Name == "import" {
				return fmt.Sprintf("import directive left in the tree (%s:%d)", nd.File, nd.Line)
			}
			if nd.Snippet || nd.Macro {
				return fmt.Sprintf("snippet / macro definition left in the tree (%s)", nd.Name)
			}
			for _, a := range nd.Args {
				if strings.Contains(a, "$(") {
					return fmt.Sprintf("unexpanded macro reference in an argument (%s)", a)
				}
			}
			if w := walk(nd.Children, depth+1); w != "" {
				return w
			}
		}
		return ""
	}
	cfg := make([]string, 0, maxLines)
	var rec func()
	rec = func() {
		if len(cfg) > 0 {
			src := strings.Join(cfg, "\n") + "\n"
			n++
			func() {
				defer func() {
					if r := recover(); r != nil {
						bad++
						if bad <= 5 {
							fmt.Printf("BOUNDED-VIOLATION: Read(%q) panicked: %v\n", src, r)
						}
					}
				}()
				tree, err := Read(strings.NewReader(src), "bounded")
				if err != nil {
					return
				}
				if w := walk(tree, 0); w != "" {
					bad++
					if bad <= 5 {
						fmt.Printf("BOUNDED-VIOLATION: Read(%q) succeeded but: %s\n", src, w)
					}
				}
			}()
		}
		if len(cfg) == maxLines {
			return
		}
		for _, l := range lines {
			cfg = append(cfg, l)
			rec()
			cfg = cfg[:len(cfg)-1]
		}
	}
	rec()
	fmt.Printf("BOUNDED: evaluations=%d violations=%d\n", n, bad)
	if bad > 0 {
		t.Fail()
	}
}
