package parser

// Replay for C20 obligations: configuration parsing must never panic. A corpus of hostile inputs built from the
// grammar's corner cases (macros with no / empty / undefined values, bare macro names, snippets, unbalanced
// braces, escapes, line continuations) is fed to Read; any panic is reported.

import (
	"fmt"
	"strings"
	"testing"
)

func verifInputs() []string {
	base := []string{
		"", "a", "a b", "a {", "}", "a { }", "a {\n}", "a { b }", "a {\nb\n}\n", "a \\\n b", "a \\", "\\", "a b \\\n", "{", "{ }", "a { {", "a { } }",
		"\"", "\"abc", "a \"b c\" d", "a \"\\\"\"", "a \"\\", "# comment", "a # c\nb",
		"$(a) = 1", "$(a) = 1 2\nb $(a)", "$(a) =", "$(a)", "$(a) {", "$()", "$() = 1", "$(a) 1", "$(a) = $(b)", "$(a) = $(undefined)\ndir x$(a)y",
		"$(a) = $(b)\nc $(a)", "$(a) = 1\nb x$(a)y$(a)", "$(a) = 1 2\nb x$(a)y", "a $(", "a $()", "a )$(", "a $(x", "$(a = 1", "$(a)) = 1", "a x$(b)y",
		"(s) {\n a\n}\nimport s", "(s) x {\n}", "(s)", "()", "( {", "(s) {\n import s\n}\nimport s", "import", "import a b", "import /nonexistent/file",
		"a {env:HOME}", "a {env:}", "{env:X} b", "a {env:$}", "1a", "a.b-c_d", "a\x00b", "a \xff\xfe", "\ufeffa b", "a\rb", "a\tb\n\n\nc",
		"a {\n b {\n c {\n }\n }\n}", "a { b { c } }", "a {\n$(m) = 1\n}", "a {\n(s) {\n}\n}",
	}
	out := append([]string{}, base...)
	for _, x := range base {
		for _, y := range []string{"$(a) = $(nope)\n", "$(e) = \"\"\n", "(sn) {\n x $(a)\n}\n", "b {\n"} {
			out = append(out, y+x, x+"\n"+y, y+x+"\n}")
		}
	}
	out = append(out, strings.Repeat("a {\n", 300)+strings.Repeat("}\n", 300), strings.Repeat("a { ", 300), "$(a) = "+strings.Repeat("x ", 100)+"\nb y$(a)z")
	return out
}

func TestVerifReplayNoPanic(t *testing.T) {
	for _, in := range verifInputs() {
		func() {
			defer func() {
				if r := recover(); r != nil {
					t.Fatalf("REPRODUCED: Read(%q) panicked: %v", in, r)
				}
			}()
			nodes, err := Read(strings.NewReader(in), "verif-replay")
			if err == nil {
				verifCheckTree(t, in, nodes, 0)
			}
		}()
	}
}

// verifCheckTree: no macro/snippet node and no import directive survives in a successfully parsed tree.
func verifCheckTree(t *testing.T, in string, nodes []Node, depth int) {
	if depth > 300 {
		t.Fatalf("REPRODUCED: Read(%q) returned a tree nested deeper than 300", in)
	}
	for _, n := range nodes {
		if n.Macro || n.Snippet || n.Name == "import" {
			t.Fatalf("REPRODUCED: Read(%q) returned an unexpanded node %s", in, fmt.Sprintf("%+v", n))
		}
		verifCheckTree(t, in, n.Children, depth+1)
	}
}
