package smtp

// Replay oracle for C03 (injected with go test -overlay): drives the real endpoint + pipeline over TCP with command
// sequences and injected target failures; a typestate monitor target records Start/Commit/Abort/use-after-close per
// delivery, and a per-source concurrency limit of 1 makes a leaked permit observable (the next MAIL from the same
// sender domain times out).

import (
	"context"
	"errors"
	"fmt"
	"net"
	"strings"
	"sync"
	"testing"
	"time"

	"github.com/emersion/go-message/textproto"
	"github.com/emersion/go-smtp"
	"github.com/foxcpp/maddy/framework/buffer"
	"github.com/foxcpp/maddy/framework/config"
	"github.com/foxcpp/maddy/framework/module"
)

type vrMonDelivery struct {
	t                          *vrMonTarget
	commits, aborts, afterUse  int
	bodies                     int
}

type vrMonTarget struct {
	mu                  sync.Mutex
	deliveries          []*vrMonDelivery
	bodyErr, commitErr  error
	abortErr            error
}

func (t *vrMonTarget) Start(ctx context.Context, msgMeta *module.MsgMetadata, mailFrom string) (module.Delivery, error) {
	t.mu.Lock()
	defer t.mu.Unlock()
	d := &vrMonDelivery{t: t}
	t.deliveries = append(t.deliveries, d)
	return d, nil
}
func (d *vrMonDelivery) closed() bool { return d.commits+d.aborts > 0 }
func (d *vrMonDelivery) AddRcpt(ctx context.Context, rcptTo string, _ smtp.RcptOptions) error {
	d.t.mu.Lock()
	defer d.t.mu.Unlock()
	if d.closed() {
		d.afterUse++
	}
	return nil
}
func (d *vrMonDelivery) Body(ctx context.Context, header textproto.Header, body buffer.Buffer) error {
	d.t.mu.Lock()
	defer d.t.mu.Unlock()
	if d.closed() {
		d.afterUse++
	}
	d.bodies++
	return d.t.bodyErr
}
func (d *vrMonDelivery) Abort(ctx context.Context) error {
	d.t.mu.Lock()
	defer d.t.mu.Unlock()
	if d.closed() {
		d.afterUse++
	}
	d.aborts++
	return d.t.abortErr
}
func (d *vrMonDelivery) Commit(ctx context.Context) error {
	d.t.mu.Lock()
	defer d.t.mu.Unlock()
	if d.closed() {
		d.afterUse++
	}
	d.commits++
	return d.t.commitErr
}

type vrStep struct {
	cmd string // MAIL RCPT DATA DATALOOP RSET
	arg string
}

// vrRun plays the steps on one connection, then closes it, and returns the reply outcome of the last DATA (nil = none).
func vrRun(t *testing.T, deferred bool, tgt *vrMonTarget, steps []vrStep) (dataReplies []error) {
	cfg := []config.Node{{Name: "limits", Children: []config.Node{{Name: "source", Args: []string{"concurrency", "1"}}}}}
	if !deferred {
		cfg = append(cfg, config.Node{Name: "defer_sender_reject", Args: []string{"no"}})
	}
	endp := testEndpoint(t, "smtp", nil, tgt, nil, cfg)
	defer endp.Close()
	cl, err := smtp.Dial("127.0.0.1:" + testPort)
	if err != nil {
		t.Fatal(err)
	}
	_ = cl.Hello("mx.example.org")
	for _, st := range steps {
		switch st.cmd {
		case "MAIL":
			cl.Mail(st.arg, nil)
		case "RCPT":
			cl.Rcpt(st.arg, &smtp.RcptOptions{})
		case "RSET":
			cl.Reset()
		case "DATA", "DATALOOP":
			w, err := cl.Data()
			if err != nil {
				dataReplies = append(dataReplies, err)
				continue
			}
			msg := "From: <a@example.org>\r\n\r\nhi\r\n"
			if st.cmd == "DATALOOP" {
				msg = strings.Repeat("Received: from x by y; Thu, 1 Jan 1970 00:00:00 +0000\r\n", 200) + msg
			}
			w.Write([]byte(msg))
			err = w.Close()
			if err == nil {
				err = errOK
			}
			dataReplies = append(dataReplies, err)
		}
	}
	cl.Close()
	// wait for Logout
	for i := 0; i < 100 && endp.sessionCnt.Load() != 0; i++ {
		time.Sleep(10 * time.Millisecond)
	}
	// permit check on the same endpoint: a new session with the same sender domain must get its MAIL/RCPT accepted quickly
	cl2, err := smtp.Dial("127.0.0.1:" + testPort)
	if err == nil {
		_ = cl2.Hello("mx.example.org")
		done := make(chan error, 1)
		go func() {
			if err := cl2.Mail("probe@EXAMPLE.org", nil); err != nil {
				done <- err
				return
			}
			done <- cl2.Rcpt("probe@example.com", &smtp.RcptOptions{})
		}()
		select {
		case err := <-done:
			if err != nil {
				dataReplies = append(dataReplies, fmt.Errorf("PERMIT-LEAK: next transaction of the same sender domain refused: %v", err))
			}
		case <-time.After(7 * time.Second):
			dataReplies = append(dataReplies, errors.New("PERMIT-LEAK: next transaction of the same sender domain blocked"))
		}
		cl2.Close()
		for i := 0; i < 100 && endp.sessionCnt.Load() != 0; i++ {
			time.Sleep(10 * time.Millisecond)
		}
	}
	return dataReplies
}

var errOK = errors.New("250 OK")

func TestVerifReplaySessionTypestate(t *testing.T) {
	bodyErr := errors.New("body failed")
	commitErr := errors.New("commit failed")
	type scen struct {
		name               string
		bodyErr, commitErr error
		steps              []vrStep
		abortErr           error
	}
	m := func(a string) vrStep { return vrStep{"MAIL", a} }
	r := func(a string) vrStep { return vrStep{"RCPT", a} }
	data, loop, rset := vrStep{"DATA", ""}, vrStep{"DATALOOP", ""}, vrStep{"RSET", ""}
	scens := []scen{
		{"plain", nil, nil, []vrStep{m("s@EXAMPLE.org"), r("a@example.com"), data}, nil},
		{"body failure", bodyErr, nil, []vrStep{m("s@example.org"), r("a@example.com"), data}, nil},
		{"commit failure", nil, commitErr, []vrStep{m("s@example.org"), r("a@example.com"), data}, nil},
		{"routing loop refused", nil, nil, []vrStep{m("s@example.org"), r("a@example.com"), loop}, nil},
		{"second MAIL without RSET", nil, nil, []vrStep{m("s@example.org"), r("a@example.com"), m("t@example.net"), r("b@example.com"), data}, nil},
		{"RSET then disconnect inside a transaction", nil, nil, []vrStep{m("s@example.org"), r("a@example.com"), rset, m("s@example.org"), r("a@example.com")}, nil},
		{"RSET with a failing Abort", nil, nil, []vrStep{m("s@example.org"), r("a@example.com"), rset}, errors.New("abort failed")},
		{"failed DATA with a failing Abort", bodyErr, nil, []vrStep{m("s@example.org"), r("a@example.com"), data}, errors.New("abort failed")},
		{"two messages, first fails", bodyErr, nil, []vrStep{m("s@example.org"), r("a@example.com"), data, m("s@example.org"), r("a@example.com"), data}, nil},
	}
	bad := 0
	for _, deferred := range []bool{false, true} {
		for _, sc := range scens {
			tgt := &vrMonTarget{bodyErr: sc.bodyErr, commitErr: sc.commitErr, abortErr: sc.abortErr}
			replies := vrRun(t, deferred, tgt, sc.steps)
			var problems []string
			for _, e := range replies {
				if e != nil && strings.HasPrefix(e.Error(), "PERMIT-LEAK") {
					problems = append(problems, e.Error())
				}
			}
			tgt.mu.Lock()
			for i, d := range tgt.deliveries {
				if d.commits+d.aborts != 1 {
					problems = append(problems, fmt.Sprintf("delivery %d closed %d times (commits=%d aborts=%d)", i, d.commits+d.aborts, d.commits, d.aborts))
				}
				if d.afterUse > 0 {
					problems = append(problems, fmt.Sprintf("delivery %d used %d times after it was closed", i, d.afterUse))
				}
			}
			tgt.mu.Unlock()
			if len(problems) > 0 {
				bad++
				t.Logf("REPRODUCED: deferred_reject=%v, %s: %s", deferred, sc.name, strings.Join(problems, "; "))
			}
		}
	}
	if bad > 0 {
		t.Fatalf("%d scenarios violate the transaction typestate / permit discipline", bad)
	}
}

// LMTP: every recipient's reply must reflect the result of its own target, whatever spelling the client used in RCPT TO.
func TestVerifReplaySessionTypestateLMTP(t *testing.T) {
	bodyErr := errors.New("body failed")
	bad := 0
	for _, rcpt := range []string{"rcpt@example.com", "rcpt@EXAMPLE.com", "RCPT@Example.COM"} {
		tgt := &vrMonTarget{bodyErr: bodyErr}
		endp := testEndpoint(t, "lmtp", nil, tgt, nil, nil)
		cl, err := smtp.Dial("127.0.0.1:" + testPort)
		if err != nil {
			t.Fatal(err)
		}
		// switch the client to LMTP
		cl.Close()
		conn, err := net.Dial("tcp", "127.0.0.1:"+testPort)
		if err != nil {
			t.Fatal(err)
		}
		lcl := smtp.NewClientLMTP(conn)
		_ = lcl.Hello("mx.example.org")
		replies := map[string]*smtp.SMTPError{}
		got := 0
		var dataErr error
		if err := lcl.Mail("s@example.org", nil); err == nil {
			if err := lcl.Rcpt(rcpt, &smtp.RcptOptions{}); err == nil {
				w, err := lcl.LMTPData(func(r string, st *smtp.SMTPError) { replies[r] = st; got++ })
				if err == nil {
					w.Write([]byte("From: <a@example.org>\r\n\r\nhi\r\n"))
					dataErr = w.Close()
				} else {
					dataErr = err
				}
			}
		}
		lcl.Close()
		st := replies[rcpt]
		// the target failed the body: the recipient's own reply must be that failure (a 5xx/4xx for this recipient),
		// not a connection-level 421 / dropped connection
		if got != 1 || st == nil || st.Code == 421 || dataErr != nil {
			bad++
			t.Logf("REPRODUCED: LMTP, RCPT TO:<%s>, target body failure: %d per-recipient replies (%v), DATA-level error: %v", rcpt, got, st, dataErr)
		}
		for i := 0; i < 100 && endp.sessionCnt.Load() != 0; i++ {
			time.Sleep(10 * time.Millisecond)
		}
		endp.Close()
	}
	if bad > 0 {
		t.Fatalf("%d LMTP transactions did not give the recipient the reply of its own target", bad)
	}
}
