package smtp

import (
	"context"
	"net"
	"testing"
	"time"

	"github.com/emersion/go-smtp"
	"github.com/foxcpp/maddy/framework/config"
	"github.com/foxcpp/maddy/internal/testutils"
)

// Demonstration for property C03 ("every rate or concurrency permit taken for
// the transaction is returned").
//
// The endpoint is configured with a per-source-domain concurrency limit of 1.
// A single, fully successful transaction is run whose MAIL FROM domain is not
// in the canonical form (upper-case here; an A-label/punycode domain works the
// same way). After the transaction is over no permit may be held any more:
// every source bucket must be immediately available again and a second
// transaction of the same sender must be accepted.
func TestDemoC03_SourcePermitReturned_NonCanonicalSenderDomain(t *testing.T) {
	tgt := testutils.Target{}
	endp := testEndpoint(t, "smtp", nil, &tgt, nil, []config.Node{
		{
			Name: "limits",
			Children: []config.Node{
				{Name: "source", Args: []string{"concurrency", "1"}},
			},
		},
	})
	defer endp.Close()

	cl, err := smtp.Dial("127.0.0.1:" + testPort)
	if err != nil {
		t.Fatal(err)
	}
	defer cl.Close()

	const sender = "sender@EXAMPLE.ORG"

	if err := submitMsg(t, cl, sender, []string{"rcpt1@example.com"}, testMsg); err != nil {
		t.Fatal("first transaction:", err)
	}
	if len(tgt.Messages) != 1 {
		t.Fatal("Expected a message, got", len(tgt.Messages))
	}

	// The transaction is finished (250 was returned for DATA, the session
	// clean-up runs before the reply is written). All permits must be back.
	ip := net.IPv4(127, 0, 0, 1)
	for _, bucket := range []string{"example.org", "EXAMPLE.ORG"} {
		ctx, cancel := context.WithTimeout(context.Background(), 500*time.Millisecond)
		err := endp.limits.TakeMsg(ctx, ip, bucket)
		cancel()
		if err != nil {
			t.Errorf("source permit of bucket %q is still held after the transaction was finished: %v", bucket, err)
			continue
		}
		endp.limits.ReleaseMsg(ip, bucket)
	}

	// End-to-end: the same sender must be able to send the next message.
	if err := submitMsg(t, cl, sender, []string{"rcpt1@example.com"}, testMsg); err != nil {
		t.Fatal("second transaction of the same sender refused:", err)
	}
	if len(tgt.Messages) != 2 {
		t.Fatal("Expected two messages, got", len(tgt.Messages))
	}
}
