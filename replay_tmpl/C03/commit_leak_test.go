package msgpipeline

import (
	"context"
	"errors"
	"testing"

	"github.com/emersion/go-message/textproto"
	"github.com/emersion/go-smtp"
	"github.com/foxcpp/maddy/framework/buffer"
	"github.com/foxcpp/maddy/framework/module"
	"github.com/foxcpp/maddy/internal/testutils"
)

// demoTarget counts how each delivery opened on it was finalized.
type demoTarget struct {
	name      string
	commitErr error

	started   int
	committed int
	aborted   int
}

func (dt *demoTarget) Name() string         { return "demo_target" }
func (dt *demoTarget) InstanceName() string { return dt.name }

func (dt *demoTarget) Start(ctx context.Context, msgMeta *module.MsgMetadata, mailFrom string) (module.Delivery, error) {
	dt.started++
	return &demoDelivery{t: dt}, nil
}

type demoDelivery struct {
	t      *demoTarget
	closed bool
}

func (d *demoDelivery) AddRcpt(ctx context.Context, rcptTo string, opts smtp.RcptOptions) error {
	return nil
}

func (d *demoDelivery) Body(ctx context.Context, header textproto.Header, body buffer.Buffer) error {
	return nil
}

func (d *demoDelivery) Abort(ctx context.Context) error {
	d.t.aborted++
	return nil
}

func (d *demoDelivery) Commit(ctx context.Context) error {
	d.t.committed++
	return d.t.commitErr
}

func demoRun(t *testing.T, targets ...*demoTarget) error {
	t.Helper()

	tgts := make([]module.DeliveryTarget, 0, len(targets))
	for _, tgt := range targets {
		tgts = append(tgts, tgt)
	}
	d := MsgPipeline{
		msgpipelineCfg: msgpipelineCfg{
			perSource: map[string]sourceBlock{},
			defaultSource: sourceBlock{
				perRcpt: map[string]*rcptBlock{},
				defaultRcpt: &rcptBlock{
					targets: tgts,
				},
			},
		},
		Log: testutils.Logger(t, "msgpipeline"),
	}

	ctx := context.Background()
	delivery, err := d.Start(ctx, &module.MsgMetadata{ID: "demo", DontTraceSender: true}, "sender@example.org")
	if err != nil {
		t.Fatal("Start:", err)
	}
	if err := delivery.AddRcpt(ctx, "rcpt@example.org", smtp.RcptOptions{}); err != nil {
		t.Fatal("AddRcpt:", err)
	}
	hdr := textproto.Header{}
	hdr.Add("Subject", "demo")
	if err := delivery.Body(ctx, hdr, buffer.MemoryBuffer{Slice: []byte("foobar\r\n")}); err != nil {
		t.Fatal("Body:", err)
	}

	// This is what the SMTP session does: once Commit was attempted
	// the pipeline delivery is considered closed, whatever Commit returned.
	return delivery.Commit(ctx)
}

func demoCheckClosedOnce(t *testing.T, targets ...*demoTarget) {
	t.Helper()
	for _, tgt := range targets {
		if tgt.started != 1 {
			t.Errorf("%s: started %d deliveries, want 1", tgt.name, tgt.started)
		}
		if tgt.committed+tgt.aborted != tgt.started {
			t.Errorf("%s: %d deliveries opened, but %d committed and %d aborted: a delivery is left open after the transaction",
				tgt.name, tgt.started, tgt.committed, tgt.aborted)
		}
	}
}

// Two targets, Commit fails on both: whatever the iteration order is, one
// of them sees the failing Commit, the other one still has to be closed.
func TestDemo_CommitFailure_RemainingTargetsAreClosed(t *testing.T) {
	a := &demoTarget{name: "a", commitErr: errors.New("commit failed on a")}
	b := &demoTarget{name: "b", commitErr: errors.New("commit failed on b")}

	if err := demoRun(t, a, b); err == nil {
		t.Fatal("Commit: expected an error")
	}
	demoCheckClosedOnce(t, a, b)
	if a.committed+b.committed != 1 {
		t.Errorf("want exactly one Commit attempt, got %d", a.committed+b.committed)
	}
}

// Three targets, only one of them fails at Commit. Which deliveries are
// reached after the failure depends on the map iteration order, so repeat.
func TestDemo_CommitFailure_OneOfThree(t *testing.T) {
	for i := 0; i < 64; i++ {
		a := &demoTarget{name: "a"}
		b := &demoTarget{name: "b", commitErr: errors.New("commit failed on b")}
		c := &demoTarget{name: "c"}

		if err := demoRun(t, a, b, c); err == nil {
			t.Fatal("Commit: expected an error")
		}
		demoCheckClosedOnce(t, a, b, c)
		if t.Failed() {
			return
		}
	}
}
