// Replay oracle (injected with go test -overlay): the demonstration a sub-agent wrote for the seeded change
// C03-delivery-registered-after-addrcpt; it passes on the unchanged tree and fails when the property is broken that way.
package msgpipeline

import (
	"context"
	"errors"
	"sync"
	"testing"

	"github.com/emersion/go-message/textproto"
	"github.com/emersion/go-smtp"
	"github.com/foxcpp/maddy/framework/buffer"
	"github.com/foxcpp/maddy/framework/config"
	"github.com/foxcpp/maddy/framework/module"
	"github.com/foxcpp/maddy/internal/testutils"
)

// demoTarget is a delivery target that records, for every delivery it opened,
// how many times it was finalized (Commit or Abort) and whether it was used
// after that.
type demoTarget struct {
	name    string
	rcptErr map[string]error

	mu         sync.Mutex
	deliveries []*demoDelivery
}

type demoDelivery struct {
	tgt *demoTarget

	rcpts     []string
	commits   int
	aborts    int
	usedAfter bool
}

func (dt *demoTarget) Init(*config.Map) error { return nil }
func (dt *demoTarget) Name() string           { return "demo_target" }
func (dt *demoTarget) InstanceName() string   { return dt.name }

func (dt *demoTarget) Start(ctx context.Context, msgMeta *module.MsgMetadata, mailFrom string) (module.Delivery, error) {
	dt.mu.Lock()
	defer dt.mu.Unlock()
	d := &demoDelivery{tgt: dt}
	dt.deliveries = append(dt.deliveries, d)
	return d, nil
}

func (d *demoDelivery) closed() bool { return d.commits+d.aborts > 0 }

func (d *demoDelivery) AddRcpt(ctx context.Context, to string, _ smtp.RcptOptions) error {
	d.tgt.mu.Lock()
	defer d.tgt.mu.Unlock()
	if d.closed() {
		d.usedAfter = true
	}
	if err := d.tgt.rcptErr[to]; err != nil {
		return err
	}
	d.rcpts = append(d.rcpts, to)
	return nil
}

func (d *demoDelivery) Body(ctx context.Context, header textproto.Header, body buffer.Buffer) error {
	d.tgt.mu.Lock()
	defer d.tgt.mu.Unlock()
	if d.closed() {
		d.usedAfter = true
	}
	return nil
}

func (d *demoDelivery) Commit(ctx context.Context) error {
	d.tgt.mu.Lock()
	defer d.tgt.mu.Unlock()
	d.commits++
	return nil
}

func (d *demoDelivery) Abort(ctx context.Context) error {
	d.tgt.mu.Lock()
	defer d.tgt.mu.Unlock()
	d.aborts++
	return nil
}

func (dt *demoTarget) check(t *testing.T) {
	t.Helper()
	dt.mu.Lock()
	defer dt.mu.Unlock()
	for i, d := range dt.deliveries {
		if n := d.commits + d.aborts; n != 1 {
			t.Errorf("target %s: delivery #%d (rcpts %v) finalized %d times (commits=%d aborts=%d), want exactly once",
				dt.name, i, d.rcpts, n, d.commits, d.aborts)
		}
		if d.usedAfter {
			t.Errorf("target %s: delivery #%d used after it was closed", dt.name, i)
		}
	}
}

func demoPipeline(t *testing.T, targets ...module.DeliveryTarget) *MsgPipeline {
	return &MsgPipeline{
		msgpipelineCfg: msgpipelineCfg{
			perSource: map[string]sourceBlock{},
			defaultSource: sourceBlock{
				perRcpt: map[string]*rcptBlock{},
				defaultRcpt: &rcptBlock{
					targets: targets,
				},
			},
		},
		Log: testutils.Logger(t, "msgpipeline"),
	}
}

// The first recipient routed to the target is refused by the target, the
// client gives up (RSET / QUIT / disconnect => Abort). The delivery opened on
// the target for that recipient must still be closed.
func TestDemo_RefusedFirstRcpt_Abort(t *testing.T) {
	tgt := &demoTarget{name: "tgt", rcptErr: map[string]error{
		"nosuchuser@example.org": errors.New("no such user"),
	}}
	d := demoPipeline(t, tgt)

	ctx := context.Background()
	delivery, err := d.Start(ctx, &module.MsgMetadata{ID: "demo1", DontTraceSender: true}, "sender@example.org")
	if err != nil {
		t.Fatal(err)
	}
	if err := delivery.AddRcpt(ctx, "nosuchuser@example.org", smtp.RcptOptions{}); err == nil {
		t.Fatal("expected the recipient to be refused")
	}
	if err := delivery.Abort(ctx); err != nil {
		t.Fatal(err)
	}

	if len(tgt.deliveries) == 0 {
		t.Fatal("target was not used at all")
	}
	tgt.check(t)
}

// Same, but the client goes on with a valid recipient and the message is
// accepted. Every delivery opened on the target has to be closed exactly once
// by the end of the transaction.
func TestDemo_RefusedFirstRcpt_ThenAccepted(t *testing.T) {
	tgt := &demoTarget{name: "tgt", rcptErr: map[string]error{
		"nosuchuser@example.org": errors.New("no such user"),
	}}
	d := demoPipeline(t, tgt)

	ctx := context.Background()
	delivery, err := d.Start(ctx, &module.MsgMetadata{ID: "demo2", DontTraceSender: true}, "sender@example.org")
	if err != nil {
		t.Fatal(err)
	}
	if err := delivery.AddRcpt(ctx, "nosuchuser@example.org", smtp.RcptOptions{}); err == nil {
		t.Fatal("expected the recipient to be refused")
	}
	if err := delivery.AddRcpt(ctx, "user@example.org", smtp.RcptOptions{}); err != nil {
		t.Fatal(err)
	}
	hdr := textproto.Header{}
	hdr.Add("Subject", "demo")
	if err := delivery.Body(ctx, hdr, buffer.MemoryBuffer{Slice: []byte("foobar\r\n")}); err != nil {
		t.Fatal(err)
	}
	if err := delivery.Commit(ctx); err != nil {
		t.Fatal(err)
	}

	tgt.check(t)

	committed := 0
	for _, dl := range tgt.deliveries {
		committed += dl.commits
	}
	if committed != 1 {
		t.Errorf("want the message committed to the target exactly once, got %d", committed)
	}
}

// Control: when the refused recipient is not the first one for the target
// everything is closed properly (passes with and without the change).
func TestDemo_RefusedSecondRcpt_Control(t *testing.T) {
	tgt := &demoTarget{name: "tgt", rcptErr: map[string]error{
		"nosuchuser@example.org": errors.New("no such user"),
	}}
	d := demoPipeline(t, tgt)

	ctx := context.Background()
	delivery, err := d.Start(ctx, &module.MsgMetadata{ID: "demo3", DontTraceSender: true}, "sender@example.org")
	if err != nil {
		t.Fatal(err)
	}
	if err := delivery.AddRcpt(ctx, "user@example.org", smtp.RcptOptions{}); err != nil {
		t.Fatal(err)
	}
	if err := delivery.AddRcpt(ctx, "nosuchuser@example.org", smtp.RcptOptions{}); err == nil {
		t.Fatal("expected the recipient to be refused")
	}
	if err := delivery.Abort(ctx); err != nil {
		t.Fatal(err)
	}
	if len(tgt.deliveries) != 1 {
		t.Fatalf("want 1 delivery opened, got %d", len(tgt.deliveries))
	}
	tgt.check(t)
}
