package msgpipeline

// Replay oracle for C03 (pipeline part; injected with go test -overlay): several targets behind one pipeline with
// failures injected into Commit / Body; every target delivery must be closed exactly once and never used afterwards.

import (
	"context"
	"errors"
	"fmt"
	"strings"
	"sync"
	"testing"

	"github.com/emersion/go-message/textproto"
	"github.com/emersion/go-smtp"
	"github.com/foxcpp/maddy/framework/buffer"
	"github.com/foxcpp/maddy/framework/module"
	"github.com/foxcpp/maddy/internal/testutils"
)

type vrMonTarget struct {
	mu                 sync.Mutex
	name               string
	starts             int
	commits, aborts    int
	afterUse, bodies   int
	bodyErr, commitErr error
}

func (t *vrMonTarget) closed() bool { return t.commits+t.aborts > 0 }
func (t *vrMonTarget) Start(ctx context.Context, msgMeta *module.MsgMetadata, mailFrom string) (module.Delivery, error) {
	t.mu.Lock()
	defer t.mu.Unlock()
	t.starts++
	return t, nil
}
func (t *vrMonTarget) AddRcpt(ctx context.Context, rcptTo string, _ smtp.RcptOptions) error {
	t.mu.Lock()
	defer t.mu.Unlock()
	if t.closed() {
		t.afterUse++
	}
	return nil
}
func (t *vrMonTarget) Body(ctx context.Context, header textproto.Header, body buffer.Buffer) error {
	t.mu.Lock()
	defer t.mu.Unlock()
	if t.closed() {
		t.afterUse++
	}
	t.bodies++
	return t.bodyErr
}
func (t *vrMonTarget) Abort(ctx context.Context) error {
	t.mu.Lock()
	defer t.mu.Unlock()
	if t.closed() {
		t.afterUse++
	}
	t.aborts++
	return nil
}
func (t *vrMonTarget) Commit(ctx context.Context) error {
	t.mu.Lock()
	defer t.mu.Unlock()
	if t.closed() {
		t.afterUse++
	}
	t.commits++
	return t.commitErr
}

func TestVerifReplayPipelineFanOut(t *testing.T) {
	commitErr := errors.New("commit failed")
	bodyErr := errors.New("body failed")
	bad := 0
	// map iteration order is random: repeat each scenario
	for round := 0; round < 40; round++ {
		for _, failing := range []string{"", "commit:0", "commit:1", "commit:2", "body:1"} {
			tgts := []*vrMonTarget{{name: "t0"}, {name: "t1"}, {name: "t2"}}
			if strings.HasPrefix(failing, "commit:") {
				tgts[failing[7]-'0'].commitErr = commitErr
			}
			if strings.HasPrefix(failing, "body:") {
				tgts[failing[5]-'0'].bodyErr = bodyErr
			}
			d := MsgPipeline{
				msgpipelineCfg: msgpipelineCfg{
					perSource: map[string]sourceBlock{},
					defaultSource: sourceBlock{
						perRcpt: map[string]*rcptBlock{},
						defaultRcpt: &rcptBlock{
							targets: []module.DeliveryTarget{tgts[0], tgts[1], tgts[2]},
						},
					},
				},
				Log: testutils.Logger(t, "msgpipeline"),
			}
			ctx := context.Background()
			delivery, err := d.Start(ctx, &module.MsgMetadata{ID: "replay"}, "sender@example.org")
			if err != nil {
				t.Fatal(err)
			}
			if err := delivery.AddRcpt(ctx, "rcpt@example.org", smtp.RcptOptions{}); err != nil {
				t.Fatal(err)
			}
			hdr := textproto.Header{}
			hdr.Add("A", "1")
			// what the SMTP session does: Body, then Commit; Abort when Body failed
			if err := delivery.Body(ctx, hdr, buffer.MemoryBuffer{Slice: []byte("foobar\r\n")}); err != nil {
				delivery.Abort(ctx)
			} else {
				delivery.Commit(ctx)
			}
			var problems []string
			for _, tg := range tgts {
				if tg.starts != 0 && tg.commits+tg.aborts != 1 {
					problems = append(problems, fmt.Sprintf("%s closed %d times (commits=%d aborts=%d)", tg.name, tg.commits+tg.aborts, tg.commits, tg.aborts))
				}
				if tg.afterUse > 0 {
					problems = append(problems, fmt.Sprintf("%s used %d times after it was closed", tg.name, tg.afterUse))
				}
			}
			if len(problems) > 0 {
				bad++
				if bad <= 5 {
					t.Logf("REPRODUCED: failure injected at %q: %s", failing, strings.Join(problems, "; "))
				}
			}
		}
	}
	if bad > 0 {
		t.Fatalf("%d runs left a target delivery open or used one after it was closed", bad)
	}
}
