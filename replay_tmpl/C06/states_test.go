// Replay oracle (injected with go test -overlay): the demonstration a sub-agent wrote for the seeded change
// C06-state-cached-before-replay; it passes on the unchanged tree and fails when the property is broken that way.
package msgpipeline

import (
	"context"
	"errors"
	"testing"

	"github.com/emersion/go-message/textproto"
	"github.com/emersion/go-smtp"
	"github.com/foxcpp/maddy/framework/buffer"
	"github.com/foxcpp/maddy/framework/module"
	"github.com/foxcpp/maddy/internal/testutils"
)

// Demonstration for property C06 ("check verdicts are always enforced").
//
// A destination-scoped check is first instantiated when a recipient routed to
// its block arrives; the connection and sender stages are then replayed for
// it. If the check rejects during that replay, the RCPT command is refused.
// An SMTP/LMTP client is free to continue with further recipients after a
// refused RCPT. Every further recipient that is handled by a block
// referencing the same check must be refused as well, since the check
// rejected the connection/sender of this very message.

type demoStatuses map[string]error

func (s demoStatuses) SetStatus(rcptTo string, err error) { s[rcptTo] = err }

func demoPipeline(t *testing.T, chk *testutils.Check, tgtA, tgtB *testutils.Target) *MsgPipeline {
	return &MsgPipeline{
		msgpipelineCfg: msgpipelineCfg{
			perSource: map[string]sourceBlock{},
			defaultSource: sourceBlock{
				perRcpt: map[string]*rcptBlock{
					// The same check instance is referenced from two
					// destination blocks.
					"a.example.org": {
						checks:  []module.Check{chk},
						targets: []module.DeliveryTarget{tgtA},
					},
					"b.example.org": {
						checks:  []module.Check{chk},
						targets: []module.DeliveryTarget{tgtB},
					},
				},
				defaultRcpt: &rcptBlock{
					rejectErr: errors.New("no such destination"),
				},
			},
		},
		Hostname: "TEST-HOST",
		Log:      testutils.Logger(t, "msgpipeline"),
	}
}

func demoRun(t *testing.T, chk *testutils.Check, rcpts []string, nonAtomic bool) (accepted []string, delivered int) {
	t.Helper()

	tgtA, tgtB := &testutils.Target{}, &testutils.Target{}
	d := demoPipeline(t, chk, tgtA, tgtB)

	ctx := context.Background()
	meta := &module.MsgMetadata{ID: "demo", DontTraceSender: true, OriginalFrom: "sender@example.com"}
	delivery, err := d.Start(ctx, meta, "sender@example.com")
	if err != nil {
		t.Fatalf("unexpected Start error: %v", err)
	}

	for _, rcpt := range rcpts {
		if err := delivery.AddRcpt(ctx, rcpt, smtp.RcptOptions{}); err != nil {
			t.Logf("RCPT %s refused: %v", rcpt, err)
			continue
		}
		t.Logf("RCPT %s accepted", rcpt)
		accepted = append(accepted, rcpt)
	}

	if len(accepted) == 0 {
		// What a client has to do when every RCPT got refused.
		if err := delivery.Abort(ctx); err != nil {
			t.Fatalf("unexpected Abort error: %v", err)
		}
	} else {
		hdr := textproto.Header{}
		hdr.Add("Subject", "demo")
		body := buffer.MemoryBuffer{Slice: []byte("foobar\r\n")}

		failed := false
		if nonAtomic {
			sts := demoStatuses{}
			delivery.(module.PartialDelivery).BodyNonAtomic(ctx, sts, hdr, body)
			for rcpt, err := range sts {
				t.Logf("LMTP status for %s: %v", rcpt, err)
			}
		} else if err := delivery.Body(ctx, hdr, body); err != nil {
			t.Logf("DATA refused: %v", err)
			failed = true
		}
		if failed {
			if err := delivery.Abort(ctx); err != nil {
				t.Fatalf("unexpected Abort error: %v", err)
			}
		} else if err := delivery.Commit(ctx); err != nil {
			t.Fatalf("unexpected Commit error: %v", err)
		}
	}

	if chk.UnclosedStates != 0 {
		t.Errorf("check state leaked or double-closed: %d", chk.UnclosedStates)
	}

	return accepted, len(tgtA.Messages) + len(tgtB.Messages)
}

func TestDemoC06_RejectInReplayedStageIsEnforcedForLaterRcpts(t *testing.T) {
	type tcase struct {
		name      string
		chk       testutils.Check
		rcpts     []string
		nonAtomic bool
	}

	senderReject := testutils.Check{
		InstName:  "dst_check",
		SenderRes: module.CheckResult{Reject: true, Reason: errors.New("sender is not welcome")},
	}
	connReject := testutils.Check{
		InstName: "dst_check",
		ConnRes:  module.CheckResult{Reject: true, Reason: errors.New("client is not welcome")},
	}

	sameBlock := []string{"r1@a.example.org", "r2@a.example.org"}
	twoBlocks := []string{"r1@a.example.org", "r2@b.example.org"}
	threeRcpts := []string{"r1@a.example.org", "r2@b.example.org", "r3@a.example.org"}

	for _, c := range []tcase{
		{"sender reject/same block/SMTP", senderReject, sameBlock, false},
		{"sender reject/same block/LMTP", senderReject, sameBlock, true},
		{"sender reject/check shared by two blocks/SMTP", senderReject, twoBlocks, false},
		{"sender reject/check shared by two blocks/LMTP", senderReject, twoBlocks, true},
		{"sender reject/three rcpts/SMTP", senderReject, threeRcpts, false},
		{"conn reject/same block/SMTP", connReject, sameBlock, false},
		{"conn reject/check shared by two blocks/LMTP", connReject, twoBlocks, true},
	} {
		c := c
		t.Run(c.name, func(t *testing.T) {
			chk := c.chk // fresh counters for every case
			accepted, delivered := demoRun(t, &chk, c.rcpts, c.nonAtomic)

			if len(accepted) != 0 {
				t.Errorf("recipients %v were accepted although the applicable check %q rejected the message", accepted, chk.InstName)
			}
			if delivered != 0 {
				t.Errorf("%d message(s) delivered although the applicable check %q rejected", delivered, chk.InstName)
			}
			// The check is consulted about the rejected stage for every
			// attempt - it must never be allowed to proceed to later
			// stages of a message it rejected.
			if chk.BodyCalls != 0 {
				t.Errorf("CheckBody called %d times for a check that rejected an earlier stage", chk.BodyCalls)
			}
		})
	}
}
