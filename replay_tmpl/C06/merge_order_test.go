// Replay oracle (injected with go test -overlay): the demonstration a sub-agent wrote for the seeded change
// C06-quarantine-uses-reject-once; it passes on the unchanged tree and fails when the property is broken that way.
package msgpipeline

import (
	"context"
	"errors"
	"testing"
	"time"

	"github.com/emersion/go-message/textproto"
	"github.com/foxcpp/maddy/framework/buffer"
	"github.com/foxcpp/maddy/framework/config"
	"github.com/foxcpp/maddy/framework/module"
	"github.com/foxcpp/maddy/internal/testutils"
)

// demoDelayCheck is a scripted check that returns a fixed verdict at the body
// stage after the configured delay, so the completion order of the parallel
// check goroutines can be controlled.
type demoDelayCheck struct {
	name    string
	delay   time.Duration
	bodyRes module.CheckResult
}

func (c *demoDelayCheck) Init(*config.Map) error { return nil }
func (c *demoDelayCheck) Name() string           { return "demo_delay_check" }
func (c *demoDelayCheck) InstanceName() string   { return c.name }

func (c *demoDelayCheck) CheckStateForMsg(context.Context, *module.MsgMetadata) (module.CheckState, error) {
	return &demoDelayState{c}, nil
}

type demoDelayState struct{ c *demoDelayCheck }

func (s *demoDelayState) CheckConnection(context.Context) module.CheckResult {
	return module.CheckResult{}
}
func (s *demoDelayState) CheckSender(context.Context, string) module.CheckResult {
	return module.CheckResult{}
}
func (s *demoDelayState) CheckRcpt(context.Context, string) module.CheckResult {
	return module.CheckResult{}
}
func (s *demoDelayState) CheckBody(context.Context, textproto.Header, buffer.Buffer) module.CheckResult {
	time.Sleep(s.c.delay)
	return s.c.bodyRes
}
func (s *demoDelayState) Close() error { return nil }

// A reject verdict must be enforced regardless of the order in which the
// concurrently running checks of one group finish.
func TestDemo_RejectDominatesForEveryCompletionOrder(t *testing.T) {
	for _, tc := range []struct {
		name                     string
		quarantineDly, rejectDly time.Duration
	}{
		{"reject finishes first", 100 * time.Millisecond, 0},
		{"quarantine finishes first", 0, 100 * time.Millisecond},
	} {
		t.Run(tc.name, func(t *testing.T) {
			target := testutils.Target{}
			quarantine := &demoDelayCheck{
				name:    "quarantining",
				delay:   tc.quarantineDly,
				bodyRes: module.CheckResult{Quarantine: true, Reason: errors.New("suspicious")},
			}
			reject := &demoDelayCheck{
				name:    "rejecting",
				delay:   tc.rejectDly,
				bodyRes: module.CheckResult{Reject: true, Reason: errors.New("forbidden")},
			}
			d := MsgPipeline{
				msgpipelineCfg: msgpipelineCfg{
					globalChecks: []module.Check{quarantine, reject},
					perSource:    map[string]sourceBlock{},
					defaultSource: sourceBlock{
						perRcpt: map[string]*rcptBlock{},
						defaultRcpt: &rcptBlock{
							targets: []module.DeliveryTarget{&target},
						},
					},
				},
				Hostname: "TEST-HOST",
				Log:      testutils.Logger(t, "msgpipeline"),
			}

			_, err := testutils.DoTestDeliveryErr(t, &d, "sender@example.com", []string{"rcpt@example.com"})
			if err == nil {
				t.Errorf("message accepted although a body check rejected it")
			}
			if len(target.Messages) != 0 {
				t.Errorf("rejected message was delivered to the target (quarantine flag = %v)",
					target.Messages[0].MsgMeta.Quarantine)
			}
		})
	}
}
