package msgpipeline

import (
	"context"
	"errors"
	"fmt"
	"testing"

	"github.com/emersion/go-message/textproto"
	"github.com/emersion/go-smtp"
	"github.com/foxcpp/maddy/framework/buffer"
	"github.com/foxcpp/maddy/framework/module"
	"github.com/foxcpp/maddy/internal/testutils"
)

// Replay oracle for C06 obligations of the check runner and of the pipeline's body stage.
// Enumerates placements of one scripted check (global / source block / destination block), the stage at which it
// gives its verdict, the verdict (reject, quarantine, both) and the delivery path (atomic Body, per-recipient
// BodyNonAtomic), drives the REAL pipeline and compares with the statement: a rejecting check => the command/message
// is refused and no target gets the body; a quarantining check => every target that gets the body sees
// MsgMeta.Quarantine set.

type c06Status map[string]error

func (m c06Status) SetStatus(rcptTo string, err error) { m[rcptTo] = err }

func c06Run(t *testing.T, place, stage int, res module.CheckResult, nonAtomic bool) (failure string) {
	check := &testutils.Check{}
	switch stage {
	case 0:
		check.ConnRes = res
	case 1:
		check.SenderRes = res
	case 2:
		check.RcptRes = res
	case 3:
		check.BodyRes = res
	}
	target := &testutils.Target{}
	rb := &rcptBlock{targets: []module.DeliveryTarget{target}}
	sb := sourceBlock{perRcpt: map[string]*rcptBlock{}, defaultRcpt: rb}
	cfg := msgpipelineCfg{perSource: map[string]sourceBlock{}}
	switch place {
	case 0:
		cfg.globalChecks = []module.Check{check}
	case 1:
		sb.checks = []module.Check{check}
	case 2:
		rb.checks = []module.Check{check}
	}
	cfg.defaultSource = sb
	d := MsgPipeline{msgpipelineCfg: cfg, Log: testutils.Logger(t, "msgpipeline")}

	ctx := context.Background()
	meta := &module.MsgMetadata{ID: "c06replay", OriginalFrom: "sender@example.org", DontTraceSender: true}
	refused := false
	delivery, err := d.Start(ctx, meta, "sender@example.org")
	if err != nil {
		refused = true
	} else {
		if err := delivery.AddRcpt(ctx, "rcpt@example.org", smtp.RcptOptions{}); err != nil {
			refused = true
			delivery.Abort(ctx)
		} else {
			hdr := textproto.Header{}
			hdr.Add("Subject", "x")
			body := buffer.MemoryBuffer{Slice: []byte("foobar\r\n")}
			if nonAtomic {
				st := c06Status{}
				delivery.(module.PartialDelivery).BodyNonAtomic(ctx, st, hdr, body)
				if st["rcpt@example.org"] != nil {
					refused = true
					delivery.Abort(ctx)
				} else if err := delivery.Commit(ctx); err != nil {
					refused = true
				}
			} else if err := delivery.Body(ctx, hdr, body); err != nil {
				refused = true
				delivery.Abort(ctx)
			} else if err := delivery.Commit(ctx); err != nil {
				refused = true
			}
		}
	}
	desc := fmt.Sprintf("check placed in %s, verdict at stage %s, result{Reject:%v Quarantine:%v}, nonAtomic=%v",
		[]string{"global", "source block", "destination block"}[place], []string{"connection", "sender", "rcpt", "body"}[stage], res.Reject, res.Quarantine, nonAtomic)
	if res.Reject {
		if !refused || len(target.Messages) != 0 {
			return fmt.Sprintf("%s: refused=%v, messages delivered=%d (want refused, 0)", desc, refused, len(target.Messages))
		}
		return ""
	}
	if res.Quarantine {
		for _, m := range target.Messages {
			if !m.MsgMeta.Quarantine {
				return fmt.Sprintf("%s: target received the message without the Quarantine flag", desc)
			}
		}
		if len(target.Messages) == 0 && !refused {
			return fmt.Sprintf("%s: nothing delivered and nothing refused", desc)
		}
	}
	return ""
}

func TestVerifReplayCheckVerdicts(t *testing.T) {
	reason := errors.New("scripted verdict")
	for _, nonAtomic := range []bool{false, true} {
		for place := 0; place < 3; place++ {
			for stage := 0; stage < 4; stage++ {
				for _, res := range []module.CheckResult{{Reason: reason, Reject: true}, {Reason: reason, Quarantine: true}, {Reason: reason, Reject: true, Quarantine: true}} {
					if f := c06Run(t, place, stage, res, nonAtomic); f != "" {
						t.Fatalf("REPRODUCED: %s", f)
					}
				}
			}
		}
	}
}
