package msgpipeline

import (
	"errors"
	"testing"

	"github.com/foxcpp/maddy/framework/module"
	"github.com/foxcpp/maddy/internal/testutils"
)

// A check of the outer pipeline quarantines the message, the message is then
// handed to a nested pipeline (deliver_to &local_routing in the stock
// configuration) that has nothing to complain about. The target behind the
// nested pipeline has to see the message flagged as quarantined.

func zzDemoNested(t *testing.T, outerCheck *testutils.Check, tgt *testutils.Target) *MsgPipeline {
	inner := &MsgPipeline{
		msgpipelineCfg: msgpipelineCfg{
			perSource: map[string]sourceBlock{},
			defaultSource: sourceBlock{
				perRcpt: map[string]*rcptBlock{},
				defaultRcpt: &rcptBlock{
					targets: []module.DeliveryTarget{tgt},
				},
			},
		},
		Log: testutils.Logger(t, "msgpipeline/inner"),
	}
	return &MsgPipeline{
		msgpipelineCfg: msgpipelineCfg{
			globalChecks: []module.Check{outerCheck},
			perSource:    map[string]sourceBlock{},
			defaultSource: sourceBlock{
				perRcpt: map[string]*rcptBlock{},
				defaultRcpt: &rcptBlock{
					targets: []module.DeliveryTarget{inner},
				},
			},
		},
		Log: testutils.Logger(t, "msgpipeline/outer"),
	}
}

func TestZZDemo_NestedPipelineKeepsQuarantine_Atomic(t *testing.T) {
	for _, stage := range []string{"conn", "sender", "rcpt", "body"} {
		stage := stage
		t.Run(stage, func(t *testing.T) {
			res := module.CheckResult{Quarantine: true, Reason: errors.New("looks like spam")}
			check := testutils.Check{}
			switch stage {
			case "conn":
				check.ConnRes = res
			case "sender":
				check.SenderRes = res
			case "rcpt":
				check.RcptRes = res
			case "body":
				check.BodyRes = res
			}
			tgt := testutils.Target{}
			d := zzDemoNested(t, &check, &tgt)

			testutils.DoTestDelivery(t, d, "sender@example.org", []string{"rcpt@example.com"})

			if len(tgt.Messages) != 1 {
				t.Fatalf("want 1 message, got %d", len(tgt.Messages))
			}
			if !tgt.Messages[0].MsgMeta.Quarantine {
				t.Fatalf("check quarantined at %s stage but the target behind the nested pipeline sees the message as not quarantined", stage)
			}
		})
	}
}

type zzDemoStatuses map[string]error

func (s zzDemoStatuses) SetStatus(rcptTo string, err error) { s[rcptTo] = err }

func TestZZDemo_NestedPipelineKeepsQuarantine_NonAtomic(t *testing.T) {
	check := testutils.Check{
		BodyRes: module.CheckResult{Quarantine: true, Reason: errors.New("looks like spam")},
	}
	tgt := testutils.Target{}
	d := zzDemoNested(t, &check, &tgt)

	c := zzDemoStatuses{}
	testutils.DoTestDeliveryNonAtomic(t, c, d, "sender@example.org", []string{"rcpt@example.com"})

	if len(tgt.Messages) != 1 {
		t.Fatalf("want 1 message, got %d", len(tgt.Messages))
	}
	if !tgt.Messages[0].MsgMeta.Quarantine {
		t.Fatalf("check quarantined but the target behind the nested pipeline sees the message as not quarantined (LMTP path)")
	}
}

// Same thing without nesting: the flag set by an upstream stage (MsgMetadata
// handed to Start already quarantined) must survive a pipeline whose own
// checks have no objections.
func TestZZDemo_UpstreamQuarantineSurvives(t *testing.T) {
	check := testutils.Check{}
	tgt := testutils.Target{}
	d := MsgPipeline{
		msgpipelineCfg: msgpipelineCfg{
			globalChecks: []module.Check{&check},
			perSource:    map[string]sourceBlock{},
			defaultSource: sourceBlock{
				perRcpt: map[string]*rcptBlock{},
				defaultRcpt: &rcptBlock{
					targets: []module.DeliveryTarget{&tgt},
				},
			},
		},
		Log: testutils.Logger(t, "msgpipeline"),
	}

	testutils.DoTestDeliveryMeta(t, &d, "sender@example.org", []string{"rcpt@example.com"},
		&module.MsgMetadata{OriginalFrom: "sender@example.org", Quarantine: true})

	if len(tgt.Messages) != 1 {
		t.Fatalf("want 1 message, got %d", len(tgt.Messages))
	}
	if !tgt.Messages[0].MsgMeta.Quarantine {
		t.Fatalf("message arrived quarantined and left the pipeline not quarantined")
	}
}
