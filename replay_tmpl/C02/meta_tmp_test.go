// Replay oracle (injected with go test -overlay): the demonstration a sub-agent wrote for the seeded change
// C02-meta-tmp-excl; it passes on the unchanged tree and fails when the property is broken that way.
package queue

import (
	"context"
	"errors"
	"os"
	"path/filepath"
	"sync"
	"testing"
	"time"

	"github.com/emersion/go-message/textproto"
	"github.com/emersion/go-smtp"
	"github.com/foxcpp/maddy/framework/buffer"
	"github.com/foxcpp/maddy/framework/exterrors"
	"github.com/foxcpp/maddy/framework/module"
	"github.com/foxcpp/maddy/internal/testutils"
)

// demoTarget is a scripted delivery target.
//
// rcptFailures[N] lists the recipients that are rejected with a temporary
// error in the N-th attempt (counted from 0) seen by this target. Every
// committed attempt is recorded with the recipients it was delivered to.
//
// If gate is not nil, Start blocks until the channel is closed and then fails
// temporarily (used to freeze the queue right after the message was accepted).
type demoTarget struct {
	mu           sync.Mutex
	attempts     int
	rcptFailures []map[string]bool
	delivered    [][]string
	done         chan struct{}
	doneRcpt     string

	gate    chan struct{}
	started chan struct{}
}

type demoDelivery struct {
	t       *demoTarget
	attempt int
	rcpts   []string
}

func (dt *demoTarget) Start(ctx context.Context, msgMeta *module.MsgMetadata, mailFrom string) (module.Delivery, error) {
	if dt.gate != nil {
		dt.started <- struct{}{}
		<-dt.gate
		return nil, exterrors.WithTemporary(errors.New("shutting down"), true)
	}

	dt.mu.Lock()
	defer dt.mu.Unlock()
	d := &demoDelivery{t: dt, attempt: dt.attempts}
	dt.attempts++
	return d, nil
}

func (d *demoDelivery) AddRcpt(ctx context.Context, rcptTo string, _ smtp.RcptOptions) error {
	if d.attempt < len(d.t.rcptFailures) && d.t.rcptFailures[d.attempt][rcptTo] {
		return exterrors.WithTemporary(errors.New("try again later"), true)
	}
	d.rcpts = append(d.rcpts, rcptTo)
	return nil
}

func (d *demoDelivery) Body(ctx context.Context, header textproto.Header, body buffer.Buffer) error {
	return nil
}

func (d *demoDelivery) Abort(ctx context.Context) error { return nil }

func (d *demoDelivery) Commit(ctx context.Context) error {
	d.t.mu.Lock()
	defer d.t.mu.Unlock()
	d.t.delivered = append(d.t.delivered, d.rcpts)
	for _, r := range d.rcpts {
		if r == d.t.doneRcpt {
			close(d.t.done)
		}
	}
	return nil
}

// TestDemo_C02_StaleMetaTempFile checks that a crash in the middle of a
// meta-data update (which leaves ID.meta.new behind) does not make the
// restarted queue re-send a recipient it has already delivered to in an
// earlier attempt of the same (recovery) run.
//
// Scenario, one message for rcptA and rcptB:
//
//	run 1: message accepted; first attempt finished; the queue rewrites the
//	       meta-data: ID.meta.new created, process dies in the middle of the
//	       write (torn write), i.e. before the rename.
//	run 2: (recovery) attempt 1: rcptA delivered, rcptB temporary failure
//	                  attempt 2: rcptB temporary failure
//	                  attempt 3: rcptB delivered
//
// rcptA must be delivered by run 2 exactly once: after attempt 1 the queue
// must have recorded that only rcptB is pending.
func TestDemo_C02_StaleMetaTempFile(t *testing.T) {
	const (
		rcptA = "a@example.org"
		rcptB = "b@example.org"
	)

	// --- Run 1: accept the message, freeze the first attempt.
	frozen := &demoTarget{gate: make(chan struct{}), started: make(chan struct{}, 1)}
	q1 := newTestQueue(t, frozen)
	// Whatever run 1 does once we let it go should not be retried quickly.
	q1.initialRetryTime = time.Hour

	id := testutils.DoTestDelivery(t, q1, "sender@example.com", []string{rcptA, rcptB})

	select {
	case <-frozen.started:
	case <-time.After(5 * time.Second):
		t.Fatal("first attempt did not start")
	}

	// "Crash": take the on-disk state as it is now...
	crashDir := t.TempDir()
	entries, err := os.ReadDir(q1.location)
	if err != nil {
		t.Fatal(err)
	}
	for _, e := range entries {
		blob, err := os.ReadFile(filepath.Join(q1.location, e.Name()))
		if err != nil {
			t.Fatal(err)
		}
		if err := os.WriteFile(filepath.Join(crashDir, e.Name()), blob, 0o666); err != nil {
			t.Fatal(err)
		}
	}
	// ... plus what updateMetadataOnDisk leaves behind when the process is
	// stopped in the middle of writing the temporary file: a torn ID.meta.new
	// next to the intact ID.meta.
	metaBlob, err := os.ReadFile(filepath.Join(crashDir, id+".meta"))
	if err != nil {
		t.Fatal("accepted message has no meta-data:", err)
	}
	if err := os.WriteFile(filepath.Join(crashDir, id+".meta.new"), metaBlob[:len(metaBlob)/2], 0o666); err != nil {
		t.Fatal(err)
	}

	// Let the abandoned run 1 finish, it works on its own directory.
	close(frozen.gate)
	q1.Close()

	// --- Run 2: recovery.
	dt := &demoTarget{
		rcptFailures: []map[string]bool{
			{rcptB: true},
			{rcptB: true},
		},
		done:     make(chan struct{}),
		doneRcpt: rcptB,
	}
	q2 := newTestQueueDir(t, dt, crashDir)

	select {
	case <-dt.done:
	case <-time.After(10 * time.Second):
		q2.Close()
		t.Fatalf("rcptB was never delivered after restart; deliveries: %v", dt.delivered)
	}
	q2.Close()

	dt.mu.Lock()
	defer dt.mu.Unlock()
	t.Logf("deliveries after restart: %v", dt.delivered)

	count := map[string]int{}
	for _, rcpts := range dt.delivered {
		for _, r := range rcpts {
			count[r]++
		}
	}
	if count[rcptA] != 1 {
		t.Errorf("rcptA delivered %d times after restart, want exactly 1 (it was re-sent after a later attempt had begun)", count[rcptA])
	}
	if count[rcptB] != 1 {
		t.Errorf("rcptB delivered %d times after restart, want exactly 1", count[rcptB])
	}

	// Everything is delivered, the message itself should be gone.
	for _, suffix := range []string{".meta", ".header", ".body"} {
		if _, err := os.Stat(filepath.Join(crashDir, id+suffix)); err == nil {
			t.Errorf("%s is still stored after all recipients were delivered", id+suffix)
		}
	}
}
