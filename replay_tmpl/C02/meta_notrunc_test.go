// Replay oracle (injected with go test -overlay): the demonstration a sub-agent wrote for the seeded change
// C02-meta-tmp-no-trunc-strict-read; it passes on the unchanged tree and fails when the property is broken that way.
package queue

import (
	"context"
	"errors"
	"os"
	"path/filepath"
	"reflect"
	"sync"
	"testing"
	"time"

	"github.com/emersion/go-message/textproto"
	"github.com/emersion/go-smtp"
	"github.com/foxcpp/maddy/framework/buffer"
	"github.com/foxcpp/maddy/framework/exterrors"
	"github.com/foxcpp/maddy/framework/module"
	"github.com/foxcpp/maddy/internal/testutils"
)

// demoTarget is a scripted delivery target: script[n] lists the recipients
// rejected (temporarily) during the n-th delivery attempt it sees. Every
// attempt (committed or aborted) is reported on the attempts channel as the
// list of recipients the queue submitted.
type demoTarget struct {
	mu       sync.Mutex
	n        int
	script   []map[string]error
	onStart  func()
	attempts chan []string
}

type demoDelivery struct {
	t     *demoTarget
	tried []string
	fails map[string]error
}

func (dt *demoTarget) Start(ctx context.Context, msgMeta *module.MsgMetadata, mailFrom string) (module.Delivery, error) {
	dt.mu.Lock()
	defer dt.mu.Unlock()
	if dt.onStart != nil {
		dt.onStart()
	}
	var fails map[string]error
	if dt.n < len(dt.script) {
		fails = dt.script[dt.n]
	}
	dt.n++
	return &demoDelivery{t: dt, fails: fails}, nil
}

func (dd *demoDelivery) AddRcpt(ctx context.Context, rcptTo string, _ smtp.RcptOptions) error {
	dd.tried = append(dd.tried, rcptTo)
	return dd.fails[rcptTo]
}

func (dd *demoDelivery) Body(ctx context.Context, header textproto.Header, body buffer.Buffer) error {
	return nil
}

func (dd *demoDelivery) Abort(ctx context.Context) error {
	dd.t.attempts <- dd.tried
	return nil
}

func (dd *demoDelivery) Commit(ctx context.Context) error {
	dd.t.attempts <- dd.tried
	return nil
}

func demoWaitAttempt(ch <-chan []string, timeout time.Duration) []string {
	select {
	case rcpts := <-ch:
		return rcpts
	case <-time.After(timeout):
		return nil
	}
}

// TestDemo_CrashBeforeMetaRename checks that a message survives a process
// stop that happens in updateMetadataOnDisk right before the rename of the
// freshly written ID.meta.new over ID.meta, and that after the restart its
// still-pending recipient keeps being retried.
//
// The crash image is not hand-written: both meta-data versions are produced by
// the queue code itself.
//
//	U0 = meta-data stored when the message was accepted
//	U1 = meta-data written after the first attempt (3 recipients deferred)
//
// Image of a stop right before rename(ID.meta.new, ID.meta):
// ID.meta = U0, ID.meta.new = U1 (complete, fsynced), header and body intact.
func TestDemo_CrashBeforeMetaRename(t *testing.T) {
	const (
		rcptA = "a@example.org"
		rcptB = "b@example.org"
		rcptC = "c@example.org"
	)
	tempFail := func(s string) error {
		return exterrors.WithTemporary(errors.New(s), true)
	}

	dir := t.TempDir()

	// ---- Run 1: accept the message, first attempt defers all recipients.
	var (
		metaU0    []byte
		metaU0Err error
	)
	tgt1 := &demoTarget{
		script: []map[string]error{
			{
				rcptA: tempFail("mailbox A is temporarily unavailable, try again later"),
				rcptB: tempFail("mailbox B is temporarily unavailable, try again later"),
				rcptC: tempFail("mailbox C is temporarily unavailable, try again later"),
			},
		},
		attempts: make(chan []string, 10),
	}
	tgt1.onStart = func() {
		// The first attempt has begun: ID.meta (the only one in the spool)
		// still holds what was stored at acceptance.
		matches, _ := filepath.Glob(filepath.Join(dir, "*.meta"))
		if len(matches) != 1 {
			metaU0Err = errors.New("expected exactly one .meta file")
			return
		}
		metaU0, metaU0Err = os.ReadFile(matches[0])
	}

	q1 := newTestQueueDir(t, tgt1, dir)
	// No second attempt during this run.
	q1.initialRetryTime = time.Hour

	IDPath := func(id, ext string) string { return filepath.Join(dir, id+ext) }
	id := testutils.DoTestDelivery(t, q1, "sender@example.com", []string{rcptA, rcptB, rcptC})

	if got := demoWaitAttempt(tgt1.attempts, 5*time.Second); !reflect.DeepEqual(got, []string{rcptA, rcptB, rcptC}) {
		t.Fatalf("run 1: unexpected first attempt: %v", got)
	}
	// Close waits for tryDelivery to finish, including its meta-data update.
	if err := q1.Close(); err != nil {
		t.Fatal(err)
	}
	if metaU0Err != nil || len(metaU0) == 0 {
		t.Fatalf("could not capture the initial meta-data: %v", metaU0Err)
	}
	metaU1, err := os.ReadFile(IDPath(id, ".meta"))
	if err != nil {
		t.Fatal(err)
	}

	// ---- Crash image: the stop hit right before the rename of the update.
	if err := os.WriteFile(IDPath(id, ".meta"), metaU0, 0o666); err != nil {
		t.Fatal(err)
	}
	if err := os.WriteFile(IDPath(id, ".meta.new"), metaU1, 0o666); err != nil {
		t.Fatal(err)
	}

	// ---- Run 2 (recovery): A and B are delivered, C is deferred once more,
	// then everything succeeds.
	tgt2 := &demoTarget{
		script: []map[string]error{
			{rcptC: tempFail("try later")},
		},
		attempts: make(chan []string, 10),
	}
	q2 := newTestQueueDir(t, tgt2, dir)

	// The update of the interrupted attempt never reached ID.meta, so all
	// three recipients are attempted again. That is fine.
	if got := demoWaitAttempt(tgt2.attempts, 5*time.Second); !reflect.DeepEqual(got, []string{rcptA, rcptB, rcptC}) {
		q2.Close()
		t.Fatalf("run 2: unexpected recovery attempt: %v", got)
	}

	// C is still pending and has to be retried (retry delay is 0 in tests).
	got := demoWaitAttempt(tgt2.attempts, 3*time.Second)
	q2.Close()
	if got == nil {
		// Perhaps only the in-process retry got lost? Restart once more.
		tgt3 := &demoTarget{attempts: make(chan []string, 10)}
		q3 := newTestQueueDir(t, tgt3, dir)
		got = demoWaitAttempt(tgt3.attempts, 3*time.Second)
		q3.Close()
		if got == nil {
			blob, _ := os.ReadFile(IDPath(id, ".meta"))
			t.Fatalf("accepted message lost: %s was neither delivered, nor reported as failed, "+
				"nor attempted again (not even after another restart); ID.meta on disk:\n%s", rcptC, blob)
		}
	}
	if !reflect.DeepEqual(got, []string{rcptC}) {
		t.Fatalf("retry went to %v, want only %v", got, []string{rcptC})
	}

	// Everything delivered, nothing of the message may stay behind.
	for _, ext := range []string{".meta", ".header", ".body"} {
		if _, err := os.Stat(IDPath(id, ext)); !os.IsNotExist(err) {
			t.Errorf("%s still present after complete delivery (err = %v)", id+ext, err)
		}
	}
}
