package queue

// Replay for C02 obligations on storeNewMessage (a failure after the metadata file was created must not leave a
// loadable message behind): the test re-executes itself under strace with fault injection on fsync(2) (the n-th
// fsync of the process fails with EIO), runs the REAL queue's acceptance path (Start, AddRcpt, Body), which then fails,
// aborts the transaction as the SMTP endpoint does, and restarts a queue on the same spool directory. If the aborted
// message is delivered after the restart the defect is reproduced.

import (
	"os"
	"os/exec"
	"strings"
	"testing"
	"time"

	"github.com/foxcpp/maddy/framework/log"
	"github.com/foxcpp/maddy/framework/module"
	"github.com/foxcpp/maddy/internal/testutils"
)

func vcNewQueue(t *testing.T, dir string, tgt module.DeliveryTarget) *Queue {
	mod, _ := NewQueue("", "queue", nil, nil)
	q := mod.(*Queue)
	q.initialRetryTime = 0
	q.retryTimeScale = 1
	q.postInitDelay = 0
	q.maxTries = 3
	q.location = dir
	q.Target = tgt
	q.Log = log.Logger{Out: log.NopOutput{}}
	if err := q.start(1); err != nil {
		t.Fatal(err)
	}
	return q
}

func TestVerifReplaySyncFailureChild(t *testing.T) {
	dir := os.Getenv("VERIF_SPOOL")
	if dir == "" {
		t.Skip("helper of TestVerifReplaySyncFailure")
	}
	tgt := &testutils.Target{}
	q := vcNewQueue(t, dir, tgt)
	_, err := testutils.DoTestDeliveryErr(t, q, "sender@example.org", []string{"rcpt@example.org"})
	q.Close()
	if err == nil {
		// the injected fault did not hit the acceptance path (or acceptance does not depend on it): nothing to show
		os.WriteFile(dir+"/../outcome", []byte("accepted"), 0o644)
		return
	}
	os.WriteFile(dir+"/../outcome", []byte("aborted: "+err.Error()), 0o644)
}

func TestVerifReplaySyncFailure(t *testing.T) {
	if _, err := exec.LookPath("strace"); err != nil {
		t.Skip("strace not available")
	}
	for _, nth := range []string{"1", "2", "3"} {
		base := t.TempDir()
		dir := base + "/spool"
		os.Mkdir(dir, 0o755)
		cmd := exec.Command("strace", "-f", "-o", "/dev/null", "-e", "trace=fsync", "-e", "inject=fsync:error=EIO:when="+nth,
			os.Args[0], "-test.run", "^TestVerifReplaySyncFailureChild$", "-test.count=1")
		cmd.Env = append(os.Environ(), "VERIF_SPOOL="+dir)
		out, _ := cmd.CombinedOutput()
		outcome, _ := os.ReadFile(base + "/outcome")
		if !strings.HasPrefix(string(outcome), "aborted") {
			t.Logf("fsync #%s: %s (%s)", nth, outcome, strings.TrimSpace(string(out)))
			continue
		}
		// restart on the same spool: the aborted message must not be delivered
		tgt := &testutils.Target{}
		q := vcNewQueue(t, dir, tgt)
		time.Sleep(300 * time.Millisecond)
		q.Close()
		if len(tgt.Messages) != 0 {
			t.Fatalf("REPRODUCED: fsync #%s failed during acceptance (%s), the transaction was aborted, and after a restart the message was delivered to %v", nth, outcome, tgt.Messages[0].RcptTo)
		}
		left, _ := os.ReadDir(dir)
		for _, e := range left {
			if strings.HasSuffix(e.Name(), ".meta") {
				t.Fatalf("REPRODUCED: fsync #%s failed during acceptance (%s), the transaction was aborted, but %s is left in the spool", nth, outcome, e.Name())
			}
		}
	}
}
