// Replay oracle (injected with go test -overlay): the demonstration a sub-agent wrote for the seeded change
// C02-defer-dsn-after-spool-update; it passes on the unchanged tree and fails when the property is broken that way.
package queue

import (
	"context"
	"errors"
	"io"
	"os"
	"path/filepath"
	"sync"
	"testing"
	"time"

	"github.com/foxcpp/maddy/framework/exterrors"
	"github.com/foxcpp/maddy/framework/module"
	"github.com/foxcpp/maddy/internal/testutils"
)

// crashAtReportTarget stands in for the bounce pipeline. The moment the queue
// starts handing over a failure report it copies the spool directory (this is
// what an abrupt process stop at that instant would leave behind) and then
// loses the report, exactly as a crash before the hand-over would.
type crashAtReportTarget struct {
	spool, image string

	once     sync.Once
	snapshot chan error
}

func (c *crashAtReportTarget) Start(ctx context.Context, msgMeta *module.MsgMetadata, mailFrom string) (module.Delivery, error) {
	c.once.Do(func() {
		c.snapshot <- copySpool(c.spool, c.image)
	})
	return nil, errors.New("process stopped before the report was handed over")
}

func copySpool(from, to string) error {
	entries, err := os.ReadDir(from)
	if err != nil {
		return err
	}
	for _, e := range entries {
		src, err := os.Open(filepath.Join(from, e.Name()))
		if err != nil {
			return err
		}
		dst, err := os.Create(filepath.Join(to, e.Name()))
		if err != nil {
			src.Close()
			return err
		}
		_, err = io.Copy(dst, src)
		src.Close()
		dst.Close()
		if err != nil {
			return err
		}
	}
	return nil
}

// runCrashDuringFailureReport accepts one message for rcpts, lets the first
// attempt fail as scripted, "crashes" at the instant failure reporting begins
// and restarts a fresh queue on the crash image. After the restart the
// permanently failed recipient lostRcpt must be either attempted again or
// reported as failed.
func runCrashDuringFailureReport(t *testing.T, rcpts []string, firstAttempt map[string]error, lostRcpt string) {
	spool := t.TempDir()
	image := t.TempDir()

	reporter := &crashAtReportTarget{spool: spool, image: image, snapshot: make(chan error, 1)}

	dt := unreliableTarget{
		rcptFailures: []map[string]error{firstAttempt},
		committed:    make(chan testutils.Msg, 10),
		aborted:      make(chan testutils.Msg, 10),
	}
	q := newTestQueueDir(t, &dt, spool)
	q.hostname = "mx.example.org"
	q.autogenMsgDomain = "example.org"
	q.dsnPipeline = reporter

	// Message is accepted (Commit returned) before the stop.
	testutils.DoTestDelivery(t, q, "sender@example.com", rcpts)

	select {
	case err := <-reporter.snapshot:
		if err != nil {
			t.Fatalf("can't take the crash image: %v", err)
		}
	case <-time.After(5 * time.Second):
		t.Fatal("failure report was never attempted")
	}
	// The old process is gone as far as the image is concerned; let it wind down.
	q.Close()

	// Restart on the crash image.
	dt2 := unreliableTarget{
		committed: make(chan testutils.Msg, 10),
		aborted:   make(chan testutils.Msg, 10),
	}
	dsn2 := unreliableTarget{
		committed: make(chan testutils.Msg, 10),
		aborted:   make(chan testutils.Msg, 10),
	}
	q2 := newTestQueueDir(t, &dt2, image)
	q2.hostname = "mx.example.org"
	q2.autogenMsgDomain = "example.org"
	q2.dsnPipeline = &dsn2
	defer q2.Close()

	timeout := time.After(3 * time.Second)
	for {
		select {
		case msg := <-dt2.committed:
			for _, rcpt := range msg.RcptTo {
				if rcpt == lostRcpt {
					return // attempted again
				}
			}
		case <-dsn2.committed:
			return // reported as failed
		case <-timeout:
			t.Fatalf("%s was neither delivered, reported as failed nor attempted again after restart", lostRcpt)
		}
	}
}

func TestDemo_CrashDuringFailureReport_AllFailed(t *testing.T) {
	runCrashDuringFailureReport(t,
		[]string{"gone@example.org"},
		map[string]error{
			"gone@example.org": exterrors.WithTemporary(errors.New("no such user"), false),
		},
		"gone@example.org")
}

func TestDemo_CrashDuringFailureReport_PartialRetry(t *testing.T) {
	runCrashDuringFailureReport(t,
		[]string{"gone@example.org", "busy@example.org"},
		map[string]error{
			"gone@example.org": exterrors.WithTemporary(errors.New("no such user"), false),
			"busy@example.org": exterrors.WithTemporary(errors.New("try later"), true),
		},
		"gone@example.org")
}
