package queue

import (
	"context"
	"errors"
	"os"
	"path/filepath"
	"strings"
	"testing"
	"time"

	"github.com/foxcpp/maddy/framework/exterrors"
	"github.com/foxcpp/maddy/framework/module"
	"github.com/foxcpp/maddy/internal/testutils"
)

// stuckTarget blocks in Start: the first delivery attempt is "in flight" when
// the process is stopped.
type stuckTarget struct {
	entered chan struct{}
	release chan struct{}
}

func (st *stuckTarget) Start(ctx context.Context, msgMeta *module.MsgMetadata, mailFrom string) (module.Delivery, error) {
	select {
	case st.entered <- struct{}{}:
	default:
	}
	<-st.release
	return nil, exterrors.WithTemporary(errors.New("shutting down"), true)
}

// Accepted message, abrupt stop during the first delivery attempt (the spool
// directory is snapshotted at that instant), restart; the first attempt after
// the restart fails temporarily for the recipient. The recipient must be
// attempted again and finally delivered.
func TestZZDemo_CrashBeforeFirstAttempt_ThenTempFail(t *testing.T) {
	// Behave like production: panics in dispatch are recovered.
	oldDontRecover := dontRecover
	dontRecover = false
	defer func() { dontRecover = oldDontRecover }()

	st := &stuckTarget{entered: make(chan struct{}, 1), release: make(chan struct{})}
	q1 := newTestQueue(t, st)

	deliveryID := testutils.DoTestDelivery(t, q1, "tester@example.com", []string{"tester1@example.org"})

	select {
	case <-st.entered:
	case <-time.After(5 * time.Second):
		t.Fatal("first attempt did not start")
	}

	// "Crash": snapshot of the spool as it is at this instant.
	snapshot := t.TempDir()
	entries, err := os.ReadDir(q1.location)
	if err != nil {
		t.Fatal(err)
	}
	for _, e := range entries {
		blob, err := os.ReadFile(filepath.Join(q1.location, e.Name()))
		if err != nil {
			t.Fatal(err)
		}
		if err := os.WriteFile(filepath.Join(snapshot, e.Name()), blob, 0o600); err != nil {
			t.Fatal(err)
		}
	}
	defer func() {
		close(st.release)
		q1.Close()
	}()

	// Restart on the snapshot. First attempt fails temporarily, second succeeds.
	dt := unreliableTarget{
		rcptFailures: []map[string]error{
			{"tester1@example.org": exterrors.WithTemporary(errors.New("try later"), true)},
		},
		committed: make(chan testutils.Msg, 10),
		aborted:   make(chan testutils.Msg, 10),
	}
	q2 := newTestQueueDir(t, &dt, snapshot)
	defer q2.Close()

	select {
	case msg := <-dt.committed:
		testutils.CheckMsgID(t, &msg, "tester@example.com", []string{"tester1@example.org"}, "")
	case <-time.After(5 * time.Second):
		left, _ := os.ReadDir(snapshot)
		names := make([]string, 0, len(left))
		for _, e := range left {
			names = append(names, e.Name())
		}
		t.Fatalf("accepted message %s was neither delivered nor retried after restart; spool: %s",
			deliveryID, strings.Join(names, ", "))
	}
}
