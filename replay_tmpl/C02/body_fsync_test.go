package queue

import (
	"context"
	"os"
	"path/filepath"
	"testing"

	"github.com/emersion/go-message/textproto"
	"github.com/emersion/go-smtp"
	"github.com/foxcpp/maddy/framework/buffer"
	"github.com/foxcpp/maddy/framework/module"
	"github.com/foxcpp/maddy/internal/testutils"
)

// The queue may acknowledge a message (return nil from Body) only after the
// header AND the body blob were fsynced; otherwise a power loss right after the
// acknowledgement leaves a .meta file that points to an empty/truncated blob.
//
// fsync cannot be observed on a regular file, so the spool file is pre-created
// as a symlink to /dev/null: os.Create follows it, writes succeed, and fsync(2)
// fails with EINVAL. If storeNewMessage really fsyncs that file, Body has to
// fail and the message must not become visible to readDiskQueue.
func demoFsyncObserved(t *testing.T, suffix string) {
	// Make sure the trick works on this platform.
	probe := filepath.Join(t.TempDir(), "probe")
	if err := os.Symlink(os.DevNull, probe); err != nil {
		t.Skip("cannot create symlinks:", err)
	}
	f, err := os.Create(probe)
	if err != nil {
		t.Skip("cannot open /dev/null via symlink:", err)
	}
	syncErr := f.Sync()
	f.Close()
	if syncErr == nil {
		t.Skip("fsync on /dev/null does not fail here, cannot observe fsync")
	}

	dt := unreliableTarget{committed: make(chan testutils.Msg, 10)}
	q := newTestQueue(t, &dt)
	defer cleanQueue(t, q)

	const id = "demofsync0000000000000000000000000000001"
	if err := os.Symlink(os.DevNull, filepath.Join(q.location, id+suffix)); err != nil {
		t.Fatal(err)
	}

	msgMeta := &module.MsgMetadata{DontTraceSender: true, ID: id}
	delivery, err := q.Start(context.Background(), msgMeta, "sender@example.org")
	if err != nil {
		t.Fatal(err)
	}
	if err := delivery.AddRcpt(context.Background(), "rcpt@example.org", smtp.RcptOptions{}); err != nil {
		t.Fatal(err)
	}

	hdr := textproto.Header{}
	hdr.Add("Subject", "fsync demo")
	bodyErr := delivery.Body(context.Background(), hdr, buffer.MemoryBuffer{Slice: []byte("important body\r\n")})
	if bodyErr == nil {
		// Do not let the queue schedule anything, just report.
		_ = delivery.Abort(context.Background())
		t.Fatalf("Body acknowledged the message although %s could not be fsynced: "+
			"the file is never fsynced before the meta-data makes the message visible", suffix)
	}
	t.Logf("Body failed as expected: %v", bodyErr)

	if _, err := os.Lstat(filepath.Join(q.location, id+".meta")); err == nil {
		t.Errorf("refused message is visible to readDiskQueue (.meta exists)")
	}
	_ = delivery.Abort(context.Background())
}

func TestDemo_BodyBlobFsyncedBeforeAck(t *testing.T) {
	demoFsyncObserved(t, ".body")
}

func TestDemo_HeaderFsyncedBeforeAck(t *testing.T) {
	demoFsyncObserved(t, ".header")
}
