package remote

import (
	"context"
	"net"
	"testing"
	"time"

	"github.com/emersion/go-smtp"
	"github.com/foxcpp/go-mockdns"
	"github.com/foxcpp/maddy/framework/config"
	"github.com/foxcpp/maddy/framework/module"
	"github.com/foxcpp/maddy/internal/limits"
	"github.com/foxcpp/maddy/internal/testutils"
)

// A message with REQUIRETLS refused because the next hop offers no
// authenticated TLS must not keep the per-destination concurrency permit:
// after the delivery ended the full limit (1) must be available again.
func TestZZDemo_DestPermitReturnedOnREQUIRETLSRefusal(t *testing.T) {
	_, srv := testutils.SMTPServer(t, "127.0.0.1:"+smtpPort)
	defer srv.Close()
	defer testutils.CheckSMTPConnLeak(t, srv)
	zones := map[string]mockdns.Zone{
		"example.invalid.": {
			MX: []net.MX{{Host: "mx.example.invalid.", Pref: 10}},
		},
		"mx.example.invalid.": {
			A: []string{"127.0.0.1"},
		},
	}

	mod, err := limits.New("limits", "test", nil, nil)
	if err != nil {
		t.Fatal(err)
	}
	g := mod.(*limits.Group)
	if err := g.Init(config.NewMap(nil, config.Node{
		Children: []config.Node{
			{Name: "destination", Args: []string{"concurrency", "1"}},
		},
	})); err != nil {
		t.Fatal(err)
	}

	tgt := testTarget(t, zones, nil, nil)
	tgt.limits = g
	tgt.tlsConfig = nil
	defer tgt.Close()

	if _, err := testutils.DoTestDeliveryErrMeta(t, tgt, "test@example.com", []string{"test@example.invalid"}, &module.MsgMetadata{
		OriginalFrom: "test@example.com",
		SMTPOpts: smtp.MailOptions{
			RequireTLS: true,
		},
	}); err == nil {
		t.Fatal("Expected an error, got none")
	}

	// Quiescent now: the only permit for example.invalid must be free.
	ctx, cancel := context.WithTimeout(context.Background(), 500*time.Millisecond)
	defer cancel()
	if err := g.TakeDest(ctx, "example.invalid"); err != nil {
		t.Fatalf("destination permit leaked by the refused REQUIRETLS delivery: %v", err)
	}
	g.ReleaseDest("example.invalid")
}
