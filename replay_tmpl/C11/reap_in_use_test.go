package limiters

import (
	"context"
	"testing"
	"time"
)

// Replay for C11 (BucketSet.take must not drop a bucket that has permits outstanding): a permit for key k is held
// longer than ReapInterval while other keys overflow the table; the bucket of k is reaped although its permit is
// taken, a second message then acquires the limit-1 permit of k as well, and the matching Release calls crash.
func TestVerifReplayReapInUse(t *testing.T) {
	s := NewBucketSet(func() L { return NewSemaphore(1) }, 200*time.Millisecond, 2)
	if !s.Take("k") {
		t.Fatal("first Take(k) refused")
	}
	time.Sleep(300 * time.Millisecond) // the message holding k's permit is still being delivered
	s.Take("a")
	s.Take("b")
	s.Take("c") // table over capacity: stale buckets are reaped
	time.Sleep(300 * time.Millisecond)
	ctx, cancel := context.WithTimeout(context.Background(), 300*time.Millisecond)
	defer cancel()
	if err := s.TakeContext(ctx, "k"); err == nil {
		t.Errorf("REPRODUCED: concurrency limit 1 for key k is held by two messages at once (the bucket was reaped while its permit was out)")
		func() {
			defer func() {
				if r := recover(); r != nil {
					t.Errorf("REPRODUCED: Release crashed: %v", r)
				}
			}()
			s.Release("k")
			s.Release("k")
		}()
	}
}
