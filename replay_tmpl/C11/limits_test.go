package limits

// Replay for C11 obligations on limits.Group: for every subset of the scopes {all, ip, source} with concurrency 1,
// a TakeMsg that fails (cancelled context, saturated scope) must leave no permit behind: after releasing the
// message that legitimately holds permits, every key can be acquired again. Also: Init wires each scope to its own
// list, and nothing panics.

import (
	"context"
	"net"
	"testing"
	"time"

	"github.com/foxcpp/maddy/framework/config"
)

func verifGroup(t *testing.T, scopes []string) *Group {
	var children []config.Node
	for _, s := range scopes {
		children = append(children, config.Node{Name: s, Args: []string{"concurrency", "1"}})
	}
	g := &Group{instName: "verif"}
	if err := g.Init(config.NewMap(nil, config.Node{Children: children})); err != nil {
		t.Fatal(err)
	}
	return g
}

func verifTake(g *Group, ip, dom string, cancelled bool) error {
	ctx, cancel := context.WithTimeout(context.Background(), 25*time.Millisecond)
	defer cancel()
	if cancelled {
		cancel()
	}
	return g.TakeMsg(ctx, net.ParseIP(ip), dom)
}

func TestVerifReplayTakeMsg(t *testing.T) {
	defer func() {
		if r := recover(); r != nil {
			t.Fatalf("REPRODUCED: limit operation panicked: %v", r)
		}
	}()
	subsets := [][]string{{"all"}, {"ip"}, {"source"}, {"all", "ip"}, {"all", "source"}, {"ip", "source"}, {"all", "ip", "source"}, {"destination"}, {"all", "ip", "source", "destination"}}
	for _, scopes := range subsets {
		for rep := 0; rep < 4; rep++ {
			g := verifGroup(t, scopes)
			// message 1 holds one permit in every configured scope
			if err := verifTake(g, "192.0.2.1", "a.example", false); err != nil {
				t.Fatalf("REPRODUCED: first TakeMsg failed with scopes %v: %v", scopes, err)
			}
			// failing attempts: same ip / same domain / both, with a cancelled or expiring context
			for _, att := range [][2]string{{"192.0.2.1", "b.example"}, {"192.0.2.2", "a.example"}, {"192.0.2.1", "a.example"}, {"192.0.2.3", "c.example"}} {
				err := verifTake(g, att[0], att[1], rep%2 == 0)
				if err == nil {
					g.ReleaseMsg(net.ParseIP(att[0]), att[1])
				}
			}
			g.ReleaseMsg(net.ParseIP("192.0.2.1"), "a.example")
			// after quiescence every key must be available again
			for _, att := range [][2]string{{"192.0.2.1", "a.example"}, {"192.0.2.2", "b.example"}, {"192.0.2.3", "c.example"}} {
				if err := verifTake(g, att[0], att[1], false); err != nil {
					t.Fatalf("REPRODUCED: scopes %v: after all messages ended, TakeMsg(%s, %s) fails: %v (a permit was leaked by a failed TakeMsg)", scopes, att[0], att[1], err)
				}
				g.ReleaseMsg(net.ParseIP(att[0]), att[1])
			}
			// destination scope
			ctx, cancel := context.WithTimeout(context.Background(), 25*time.Millisecond)
			if err := g.TakeDest(ctx, "d.example"); err != nil {
				t.Fatalf("REPRODUCED: TakeDest failed: %v", err)
			}
			err := g.TakeDest(ctx, "d.example")
			hasDest := false
			for _, s := range scopes {
				hasDest = hasDest || s == "destination"
			}
			if hasDest != (err != nil) {
				t.Fatalf("REPRODUCED: scopes %v: second TakeDest on the same domain: err=%v (destination limit configured: %v)", scopes, err, hasDest)
			}
			if err == nil {
				g.ReleaseDest("d.example")
			}
			g.ReleaseDest("d.example")
			cancel()
		}
	}
}
