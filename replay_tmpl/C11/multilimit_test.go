// Replay oracle (injected with go test -overlay): the demonstration a sub-agent wrote for the seeded change
// C11-undo-skips-first; it passes on the unchanged tree and fails when the property is broken that way.
package limiters

import (
	"context"
	"testing"
	"time"
)

// A scope configured with two limits, e.g.
//
//	all concurrency 1
//	all rate 1 1h
//
// becomes MultiLimit{Semaphore(1), Rate(1, 1h)}. When the concurrency permit
// is acquired but the rate limit then times out, the concurrency permit has to
// be handed back so that after quiescence the full N can be acquired again.

func semFree(t *testing.T, sem Semaphore, n int) {
	t.Helper()
	for i := 0; i < n; i++ {
		ctx, cancel := context.WithTimeout(context.Background(), 200*time.Millisecond)
		err := sem.TakeContext(ctx)
		cancel()
		if err != nil {
			t.Fatalf("concurrency permit %d/%d is not available after quiescence (leaked by roll-back): %v", i+1, n, err)
		}
	}
	for i := 0; i < n; i++ {
		sem.Release()
	}
}

func TestDemo_MultiLimit_TakeContext_RollbackReturnsConcurrencyPermit(t *testing.T) {
	const n = 2
	sem := NewSemaphore(n)
	rate := NewRate(1, time.Hour)
	defer rate.Close()
	ml := &MultiLimit{Wrapped: []L{sem, rate}}

	// First message: gets a concurrency permit and the only rate token.
	if err := ml.TakeContext(context.Background()); err != nil {
		t.Fatal("unexpected error:", err)
	}
	ml.Release()
	semFree(t, sem, n)

	// Next n messages: each gets a concurrency permit, then hits the rate
	// limit time-out. Nothing must stay acquired afterwards.
	for i := 0; i < n; i++ {
		ctx, cancel := context.WithTimeout(context.Background(), 50*time.Millisecond)
		err := ml.TakeContext(ctx)
		cancel()
		if err == nil {
			t.Fatal("expected rate limit time-out")
		}
	}

	semFree(t, sem, n)
}

func TestDemo_MultiLimit_TakeContext_RollbackThreeLimits(t *testing.T) {
	semA := NewSemaphore(1)
	semB := NewSemaphore(1)
	rate := NewRate(1, time.Hour)
	defer rate.Close()
	ml := &MultiLimit{Wrapped: []L{semA, semB, rate}}

	if err := ml.TakeContext(context.Background()); err != nil {
		t.Fatal("unexpected error:", err)
	}
	ml.Release()

	ctx, cancel := context.WithTimeout(context.Background(), 50*time.Millisecond)
	err := ml.TakeContext(ctx)
	cancel()
	if err == nil {
		t.Fatal("expected rate limit time-out")
	}

	semFree(t, semB, 1)
	semFree(t, semA, 1)
}

func TestDemo_MultiLimit_Take_RollbackReturnsConcurrencyPermit(t *testing.T) {
	sem := NewSemaphore(1)
	rate := NewRate(1, time.Hour)
	ml := &MultiLimit{Wrapped: []L{sem, rate}}

	if !ml.Take() {
		t.Fatal("first Take should succeed")
	}
	ml.Release()

	// Reaped bucket: the rate limiter is closed, Take on it reports failure.
	rate.Close()
	if ml.Take() {
		t.Fatal("Take on a closed rate limiter should fail")
	}

	semFree(t, sem, 1)
}
