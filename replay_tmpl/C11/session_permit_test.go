// Replay oracle (injected with go test -overlay): the demonstration a sub-agent wrote for the seeded change
// C11-permit-taken-under-raw-domain; it passes on the unchanged tree and fails when the property is broken that way.
package smtp

import (
	"testing"
	"time"

	"github.com/emersion/go-smtp"
	"github.com/foxcpp/maddy/framework/config"
	"github.com/foxcpp/maddy/internal/testutils"
)

// Demonstration for C11: with a per-sender-domain concurrency limit of 1,
// sequential (never overlapping) messages must all be accepted, whatever
// the spelling of the sender domain in MAIL FROM is: each message has to
// return the permit it took when its delivery ends.
func demoSourceLimit(t *testing.T, sender string) {
	t.Helper()

	tgt := testutils.Target{}
	endp := testEndpoint(t, "smtp", nil, &tgt, nil, []config.Node{
		{
			Name: "limits",
			Children: []config.Node{
				{Name: "source", Args: []string{"concurrency", "1"}},
			},
		},
	})
	defer endp.Close()

	for i := 0; i < 3; i++ {
		cl, err := smtp.Dial("127.0.0.1:" + testPort)
		if err != nil {
			t.Fatal(err)
		}

		start := time.Now()
		err = submitMsg(t, cl, sender, []string{"rcpt@example.com"}, testMsg)
		cl.Close()
		if err != nil {
			t.Fatalf("message %d from %s refused after %v (permit of the previous message was not returned): %v",
				i+1, sender, time.Since(start), err)
		}
	}

	if len(tgt.Messages) != 3 {
		t.Fatalf("expected 3 delivered messages, got %d", len(tgt.Messages))
	}
}

func TestDemoC11_SourcePermitReturned_NormalizedSender(t *testing.T) {
	demoSourceLimit(t, "sender@example.org")
}

func TestDemoC11_SourcePermitReturned_MixedCaseSender(t *testing.T) {
	demoSourceLimit(t, "sender@EXAMPLE.org")
}
