package dsn

import (
	"bufio"
	"bytes"
	"strings"
	"testing"
	"time"

	"github.com/emersion/go-message/textproto"
	"github.com/emersion/go-smtp"
)

// Reply texts a remote server can make us record as the last error of a
// recipient. go-smtp strips the CRLF that ends each reply line and joins the
// lines with LF, everything else (a stray CR before the CRLF, a lone CR inside
// the line) is kept as is.
var demoTexts = map[string]string{
	"single line":   "mailbox unavailable",
	"LF":            "mailbox unavailable\nretry later",
	"CRLF":          "mailbox unavailable\r\nretry later",
	"CR CR LF":      "mailbox unavailable\r\r\nretry later",
	"lone CR":       "mailbox unavailable\rretry later",
	"CR before LF2": "mailbox unavailable\r\nretry later\r",
}

func TestDemoRecipientInfoDiagnosticOneLine(t *testing.T) {
	for name, text := range demoTexts {
		for _, utf8 := range []bool{false, true} {
			info := RecipientInfo{
				FinalRecipient: "rcpt@example.org",
				Action:         ActionFailed,
				Status:         smtp.EnhancedCode{5, 1, 1},
				DiagnosticCode: &smtp.SMTPError{
					Code:         550,
					EnhancedCode: smtp.EnhancedCode{5, 1, 1},
					Message:      text,
				},
			}

			var out bytes.Buffer
			if err := info.WriteTo(utf8, &out); err != nil {
				t.Errorf("%s (utf8=%v): recipient group is not written: %v", name, utf8, err)
				continue
			}

			hdr, err := textproto.ReadHeader(bufio.NewReader(bytes.NewReader(out.Bytes())))
			if err != nil {
				t.Errorf("%s (utf8=%v): recipient group is malformed: %v", name, utf8, err)
				continue
			}
			if hdr.Get("Status") != "5.1.1" {
				t.Errorf("%s (utf8=%v): wrong Status: %q", name, utf8, hdr.Get("Status"))
			}
			diag := hdr.Get("Diagnostic-Code")
			if !strings.HasPrefix(diag, "smtp; 550 5.1.1 mailbox unavailable") {
				t.Errorf("%s (utf8=%v): wrong Diagnostic-Code: %q", name, utf8, diag)
			}
			if strings.ContainsAny(diag, "\r\n") {
				t.Errorf("%s (utf8=%v): Diagnostic-Code has line breaks: %q", name, utf8, diag)
			}
		}
	}
}

// The report for an attempt names every recipient that failed in it, whatever
// text the remote server used to reject one of them.
func TestDemoGenerateDSNOddReplyText(t *testing.T) {
	failedHeader := textproto.Header{}
	failedHeader.Add("Subject", "hello")
	failedHeader.Add("Message-Id", "<orig@example.com>")

	for name, text := range demoTexts {
		rcpts := []RecipientInfo{
			{
				FinalRecipient: "first@example.org",
				Action:         ActionFailed,
				Status:         smtp.EnhancedCode{5, 1, 1},
				DiagnosticCode: &smtp.SMTPError{
					Code:         550,
					EnhancedCode: smtp.EnhancedCode{5, 1, 1},
					Message:      "no such user",
				},
			},
			{
				FinalRecipient: "second@example.net",
				Action:         ActionFailed,
				Status:         smtp.EnhancedCode{5, 2, 2},
				DiagnosticCode: &smtp.SMTPError{
					Code:         552,
					EnhancedCode: smtp.EnhancedCode{5, 2, 2},
					Message:      text,
				},
			},
		}

		var body bytes.Buffer
		hdr, err := GenerateDSN(false,
			Envelope{MsgID: "<dsn@mx.example.com>", From: "MAILER-DAEMON@mx.example.com", To: "sender@example.com"},
			ReportingMTAInfo{
				ReportingMTA:    "mx.example.com",
				XSender:         "sender@example.com",
				XMessageID:      "abcdef",
				ArrivalDate:     time.Now(),
				LastAttemptDate: time.Now(),
			},
			rcpts, failedHeader, &body)
		if err != nil {
			t.Errorf("%s: no report for the sender: %v", name, err)
			continue
		}
		if !strings.HasPrefix(hdr.Get("Content-Type"), "multipart/report;") {
			t.Errorf("%s: wrong Content-Type: %q", name, hdr.Get("Content-Type"))
		}
		for _, want := range []string{
			"Final-Recipient: rfc822; first@example.org\r\n",
			"Final-Recipient: rfc822; second@example.net\r\n",
			"Status: 5.1.1\r\n",
			"Status: 5.2.2\r\n",
			"Subject: hello\r\n",
		} {
			if !strings.Contains(body.String(), want) {
				t.Errorf("%s: report lacks %q", name, want)
			}
		}
	}
}
