// Replay oracle (injected with go test -overlay): the demonstration a sub-agent wrote for the seeded change
// C18-dsn-accumulated-failed-rcpts; it passes on the unchanged tree and fails when the property is broken that way.
package queue

import (
	"bytes"
	"errors"
	"reflect"
	"testing"
	"time"

	"github.com/foxcpp/maddy/framework/exterrors"
	"github.com/foxcpp/maddy/internal/testutils"
)

// Two delivery attempts, each with one recipient failing terminally.
// Every report must list exactly the recipients that failed terminally in the
// attempt the report was generated for.
func TestDemoDSN_ListsOnlyRcptsOfThisAttempt(t *testing.T) {
	t.Parallel()

	const (
		rcptA = "first-gone@example.org"
		rcptB = "second-gone@example.org"
	)

	dsnTarget := unreliableTarget{
		committed: make(chan testutils.Msg, 10),
		aborted:   make(chan testutils.Msg, 10),
	}

	dt := unreliableTarget{
		rcptFailures: []map[string]error{
			// Attempt 1: A is rejected permanently, B temporarily.
			{
				rcptA: exterrors.WithTemporary(errors.New("no such user"), false),
				rcptB: exterrors.WithTemporary(errors.New("try later"), true),
			},
			// Attempt 2 (only B is tried): B is rejected permanently.
			{
				rcptB: exterrors.WithTemporary(errors.New("mailbox disabled"), false),
			},
		},
		committed: make(chan testutils.Msg, 10),
		aborted:   make(chan testutils.Msg, 10),
	}
	q := newTestQueue(t, &dt)
	q.hostname = "mx.example.org"
	q.autogenMsgDomain = "example.org"
	q.dsnPipeline = &dsnTarget
	defer cleanQueue(t, q)

	testutils.DoTestDelivery(t, q, "sender@example.com", []string{rcptA, rcptB})

	// Attempt 1.
	readMsgChanTimeout(t, dt.aborted, 5*time.Second)
	first := readMsgChanTimeout(t, dsnTarget.committed, 5*time.Second)
	// Attempt 2.
	second := readMsgChanTimeout(t, dt.aborted, 5*time.Second)
	if !reflect.DeepEqual(second.RcptTo, []string(nil)) {
		t.Fatalf("unexpected accepted recipients in attempt 2: %v", second.RcptTo)
	}
	secondDSN := readMsgChanTimeout(t, dsnTarget.committed, 5*time.Second)

	for _, m := range []*testutils.Msg{first, secondDSN} {
		if m.MailFrom != "" {
			t.Fatalf("wrong MAIL FROM address in DSN: %v", m.MailFrom)
		}
		if !reflect.DeepEqual(m.RcptTo, []string{"sender@example.com"}) {
			t.Fatalf("wrong RCPT TO address in DSN: %v", m.RcptTo)
		}
	}

	if !bytes.Contains(first.Body, []byte(rcptA)) {
		t.Errorf("first DSN does not mention %s:\n%s", rcptA, first.Body)
	}
	if bytes.Contains(first.Body, []byte(rcptB)) {
		t.Errorf("first DSN mentions %s, which is only deferred:\n%s", rcptB, first.Body)
	}

	if !bytes.Contains(secondDSN.Body, []byte(rcptB)) {
		t.Errorf("second DSN does not mention %s:\n%s", rcptB, secondDSN.Body)
	}
	if bytes.Contains(secondDSN.Body, []byte(rcptA)) {
		t.Errorf("second DSN reports %s again, it did not fail in this attempt:\n%s", rcptA, secondDSN.Body)
	}
	if n := bytes.Count(secondDSN.Body, []byte("Final-Recipient:")); n != 1 {
		t.Errorf("second DSN has %d per-recipient groups, want 1", n)
	}

	time.Sleep(500 * time.Millisecond)
	checkQueueDir(t, q, []string{})
}
