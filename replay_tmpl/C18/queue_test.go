package queue

// Replay oracle for C18 obligations on emitDSN: the REAL queue with a failing target and a recording bounce target.
// For recipient sets with and without rewritten (original) addresses, permanent failures with various codes, and a
// null or non-null original sender: exactly one report per failing attempt, null return path, addressed to the
// sender, naming exactly the failed recipients under the addresses the sender used with their stored status, carrying
// the original header; no report for a null original sender; the report's own metadata has an empty OriginalFrom.

import (
	"fmt"
	"path/filepath"
	"regexp"
	"sort"
	"strings"
	"testing"
	"time"

	"github.com/foxcpp/maddy/framework/exterrors"
	"github.com/foxcpp/maddy/framework/log"
	"github.com/foxcpp/maddy/framework/module"
	"github.com/foxcpp/maddy/internal/testutils"
)

var (
	vdFinal  = regexp.MustCompile(`(?m)^Final-Recipient: [^;]+; ?(.*?)\r?$`)
	vdStatus = regexp.MustCompile(`(?m)^Status: (.*?)\r?$`)
)

func vdRun(t *testing.T, origFrom string, rcpts []string, orig map[string]string, failing map[string]*exterrors.SMTPError) []string {
	var problems []string
	rcptErr := map[string]error{}
	for r, e := range failing {
		rcptErr[r] = e
	}
	tgt := &testutils.Target{RcptErr: rcptErr}
	dsnTgt := &testutils.Target{}
	dir := t.TempDir()
	mod, _ := NewQueue("", "queue", nil, nil)
	q := mod.(*Queue)
	q.initialRetryTime = 0
	q.retryTimeScale = 1
	q.postInitDelay = 0
	q.maxTries = 2
	q.location = dir
	q.Target = tgt
	q.dsnPipeline = dsnTgt
	q.hostname = "mx.example.org"
	q.autogenMsgDomain = "example.org"
	q.Log = log.Logger{Out: log.NopOutput{}}
	if err := q.start(1); err != nil {
		t.Fatal(err)
	}
	meta := &module.MsgMetadata{OriginalFrom: origFrom, OriginalRcpts: orig}
	testutils.DoTestDeliveryMeta(t, q, "sender@example.org", rcpts, meta)
	deadline := time.Now().Add(5 * time.Second)
	for {
		ms, _ := filepath.Glob(filepath.Join(dir, "*.meta"))
		if len(ms) == 0 || time.Now().After(deadline) {
			break
		}
		time.Sleep(2 * time.Millisecond)
	}
	q.Close()
	if origFrom == "" {
		if len(dsnTgt.Messages) != 0 {
			problems = append(problems, "failure report generated for a message with the null sender")
		}
		return problems
	}
	if len(failing) == 0 {
		if len(dsnTgt.Messages) != 0 {
			problems = append(problems, "failure report although no recipient failed")
		}
		return problems
	}
	if len(dsnTgt.Messages) != 1 {
		return append(problems, fmt.Sprintf("%d failure reports for one failing attempt", len(dsnTgt.Messages)))
	}
	m := dsnTgt.Messages[0]
	if m.MailFrom != "" {
		problems = append(problems, "report return path is not null: "+m.MailFrom)
	}
	if m.MsgMeta == nil || m.MsgMeta.OriginalFrom != "" {
		problems = append(problems, "report metadata has a non-empty OriginalFrom (a failing report would produce another report)")
	}
	if len(m.RcptTo) != 1 || m.RcptTo[0] != "sender@example.org" {
		problems = append(problems, fmt.Sprintf("report addressed to %v, not to the sender", m.RcptTo))
	}
	if ct := m.Header.Get("Content-Type"); !strings.HasPrefix(ct, "multipart/report") {
		problems = append(problems, "report content type is "+ct)
	}
	var want, got []string
	for r, e := range failing {
		o := r
		if orig[r] != "" {
			o = orig[r]
		}
		want = append(want, fmt.Sprintf("%s %d.%d.%d", o, e.EnhancedCode[0], e.EnhancedCode[1], e.EnhancedCode[2]))
	}
	fr := vdFinal.FindAllStringSubmatch(string(m.Body), -1)
	st := vdStatus.FindAllStringSubmatch(string(m.Body), -1)
	if len(fr) != len(st) {
		problems = append(problems, "recipient groups without Final-Recipient or Status")
	} else {
		for i := range fr {
			got = append(got, strings.TrimSpace(fr[i][1])+" "+strings.TrimSpace(st[i][1]))
		}
	}
	sort.Strings(want)
	sort.Strings(got)
	if strings.Join(want, "|") != strings.Join(got, "|") {
		problems = append(problems, fmt.Sprintf("report lists %v, expected %v", got, want))
	}
	if !strings.Contains(string(m.Body), "A: 1\r\n") || !strings.Contains(string(m.Body), "B: 2\r\n") {
		problems = append(problems, "report does not carry the header of the original message")
	}
	return problems
}

func TestVerifReplayDSN(t *testing.T) {
	perm := func(code int, ec exterrors.EnhancedCode) *exterrors.SMTPError {
		return &exterrors.SMTPError{Code: code, EnhancedCode: ec, Message: "refused"}
	}
	rcpts := []string{"a@example.org", "b@example.org", "c@example.org"}
	origs := []map[string]string{nil, {"a@example.org": "alias@example.net"}, {"a@example.org": "alias@example.net", "c@example.org": "other@example.com", "x@example.org": "b@example.org"}}
	fails := []map[string]*exterrors.SMTPError{
		{},
		{"a@example.org": perm(550, exterrors.EnhancedCode{5, 1, 1})},
		{"a@example.org": perm(550, exterrors.EnhancedCode{5, 1, 1}), "c@example.org": perm(552, exterrors.EnhancedCode{5, 2, 2})},
		{"a@example.org": perm(550, exterrors.EnhancedCode{5, 1, 1}), "b@example.org": perm(554, exterrors.EnhancedCode{5, 7, 1}), "c@example.org": perm(552, exterrors.EnhancedCode{5, 2, 2})},
	}
	for _, from := range []string{"sender@example.org", ""} {
		for _, o := range origs {
			for _, f := range fails {
				if ps := vdRun(t, from, rcpts, o, f); len(ps) > 0 {
					t.Fatalf("REPRODUCED: originalFrom=%q original-recipients=%v failing=%v: %s", from, o, f, strings.Join(ps, "; "))
				}
			}
		}
	}
}
