package dsn

import (
	"bytes"
	"strings"
	"testing"
	"time"

	"github.com/emersion/go-message/textproto"
	"github.com/emersion/go-smtp"
)

// A report must list exactly the recipients that failed. If one of them
// cannot be written into the delivery-status part, generation must fail as a
// whole instead of producing a report that silently omits that recipient.
func TestDemoC18_ReportListsEveryFailedRecipient(t *testing.T) {
	okErr := &smtp.SMTPError{Code: 550, EnhancedCode: smtp.EnhancedCode{5, 1, 1}, Message: "no such user"}

	cases := []struct {
		name  string
		utf8  bool
		rcpts []RecipientInfo
	}{
		{
			// Plain SMTP error without an enhanced code (remote server with no
			// ENHANCEDSTATUSCODES): Status is unset for the first recipient.
			name: "status unset on first recipient",
			rcpts: []RecipientInfo{
				{FinalRecipient: "first@example.org", Action: ActionFailed,
					DiagnosticCode: &smtp.SMTPError{Code: 550, Message: "go away"}},
				{FinalRecipient: "second@example.org", Action: ActionFailed,
					Status: okErr.EnhancedCode, DiagnosticCode: okErr},
			},
		},
		{
			// Non-ASCII local part cannot be represented in a non-EAI report.
			name: "non-ASCII local part in non-EAI report",
			rcpts: []RecipientInfo{
				{FinalRecipient: "тест@example.org", Action: ActionFailed,
					Status: okErr.EnhancedCode, DiagnosticCode: okErr},
				{FinalRecipient: "second@example.org", Action: ActionFailed,
					Status: okErr.EnhancedCode, DiagnosticCode: okErr},
			},
		},
	}

	for _, c := range cases {
		c := c
		t.Run(c.name, func(t *testing.T) {
			var body bytes.Buffer
			_, err := GenerateDSN(c.utf8,
				Envelope{MsgID: "<A@example.org>", From: "MAILER-DAEMON@example.org", To: "sender@example.org"},
				ReportingMTAInfo{ReportingMTA: "mx.example.org", XMessageID: "A",
					ArrivalDate: time.Now(), LastAttemptDate: time.Now()},
				c.rcpts, textproto.Header{}, &body)
			if err != nil {
				// No report at all: acceptable, nothing wrong is sent out.
				return
			}
			got := strings.Count(body.String(), "Final-Recipient:")
			if got != len(c.rcpts) {
				t.Fatalf("report generated without error but lists %d of %d failed recipients:\n%s",
					got, len(c.rcpts), body.String())
			}
		})
	}
}
