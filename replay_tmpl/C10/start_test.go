// Replay oracle (injected with go test -overlay): the demonstration a sub-agent wrote for the seeded change
// C10-start-snapshots-meta; it passes on the unchanged tree and fails when the property is broken that way.
package queue

import (
	"context"
	"errors"
	"testing"
	"time"

	"github.com/emersion/go-message/textproto"
	"github.com/emersion/go-smtp"
	"github.com/foxcpp/maddy/framework/buffer"
	"github.com/foxcpp/maddy/framework/exterrors"
	"github.com/foxcpp/maddy/framework/module"
	"github.com/foxcpp/maddy/internal/testutils"
)

// TestDemo_EnvelopeCompletedAfterStart drives the queue the way the SMTP
// endpoint and the message pipeline do:
//
//	MAIL FROM  -> target.Start(msgMeta)
//	RCPT TO    -> pipeline records msgMeta.OriginalRcpts[final] = original,
//	              then delivery.AddRcpt(final)     (once per recipient)
//	DATA       -> endpoint sees "TLS-Required: No", sets
//	              msgMeta.TLSRequireOverride, then delivery.Body + Commit
//
// i.e. parts of the envelope meta-data are filled in on the shared MsgMetadata
// object after Start was called. Whatever the queue hands to the downstream
// target (first attempt and retry from disk) must carry the TLS-Required
// override and the complete original-recipient mapping.
func TestDemo_EnvelopeCompletedAfterStart(t *testing.T) {
	t.Parallel()

	dt := unreliableTarget{
		rcptFailures: []map[string]error{
			{
				// First attempt: second recipient is deferred, so that it is retried
				// using the meta-data re-read from the spool.
				"final2@example.org": exterrors.WithTemporary(errors.New("go away"), true),
			},
		},
		committed: make(chan testutils.Msg, 10),
	}
	q := newTestQueue(t, &dt)
	defer cleanQueue(t, q)

	ctx := context.Background()

	msgMeta := &module.MsgMetadata{
		ID:              "demo0000c10b",
		OriginalFrom:    "sender@example.com",
		DontTraceSender: true,
		OriginalRcpts:   map[string]string{},
		SMTPOpts:        smtp.MailOptions{UTF8: true, RequireTLS: true},
	}

	// MAIL FROM. msgpipeline calls Start of the target lazily, right before the
	// first AddRcpt, after it recorded the mapping for the first recipient.
	msgMeta.OriginalRcpts["final1@example.org"] = "alias1@example.com"
	delivery, err := q.Start(ctx, msgMeta, "sender@example.com")
	if err != nil {
		t.Fatal(err)
	}
	if err := delivery.AddRcpt(ctx, "final1@example.org", smtp.RcptOptions{}); err != nil {
		t.Fatal(err)
	}

	// Second RCPT TO, rewritten by a recipient modifier too.
	msgMeta.OriginalRcpts["final2@example.org"] = "alias2@example.com"
	if err := delivery.AddRcpt(ctx, "final2@example.org", smtp.RcptOptions{}); err != nil {
		t.Fatal(err)
	}

	// DATA: header contains "TLS-Required: No".
	hdr := textproto.Header{}
	hdr.Add("TLS-Required", "No")
	hdr.Add("Subject", "demo")
	msgMeta.TLSRequireOverride = true
	if err := delivery.Body(ctx, hdr, buffer.MemoryBuffer{Slice: []byte("foobar\r\n")}); err != nil {
		t.Fatal(err)
	}
	if err := delivery.Commit(ctx); err != nil {
		t.Fatal(err)
	}

	check := func(attempt string, rcpt, original string) {
		t.Helper()
		msg := readMsgChanTimeout(t, dt.committed, 5*time.Second)
		if len(msg.RcptTo) != 1 || msg.RcptTo[0] != rcpt {
			t.Fatalf("%s: wrong recipients: %v", attempt, msg.RcptTo)
		}
		if !msg.MsgMeta.SMTPOpts.UTF8 || !msg.MsgMeta.SMTPOpts.RequireTLS {
			t.Errorf("%s: SMTP options lost: %+v", attempt, msg.MsgMeta.SMTPOpts)
		}
		if !msg.MsgMeta.TLSRequireOverride {
			t.Errorf("%s: TLS-Required override was accepted with the message but is not handed to the target", attempt)
		}
		if got := msg.MsgMeta.OriginalRcpts[rcpt]; got != original {
			t.Errorf("%s: original-recipient mapping for %s: want %q, got %q (map: %v)",
				attempt, rcpt, original, got, msg.MsgMeta.OriginalRcpts)
		}
	}

	check("first attempt", "final1@example.org", "alias1@example.com")
	check("retry", "final2@example.org", "alias2@example.com")

	q.Close()
	checkQueueDir(t, q, []string{})
}
