// Replay oracle (injected with go test -overlay): the demonstration a sub-agent wrote for the seeded change
// C10-header-reread-limit; it passes on the unchanged tree and fails when the property is broken that way.
package queue

import (
	"bufio"
	"bytes"
	"context"
	"errors"
	"fmt"
	"io"
	"strings"
	"sync"
	"testing"
	"time"

	"github.com/emersion/go-message/textproto"
	"github.com/emersion/go-smtp"
	"github.com/foxcpp/maddy/framework/buffer"
	"github.com/foxcpp/maddy/framework/exterrors"
	"github.com/foxcpp/maddy/framework/module"
)

// demoRecordingTarget records header and body bytes handed over by the queue
// on each delivery attempt. The first demoFailures attempts fail with a
// temporary error at the Body stage.
type demoRecordingTarget struct {
	mu       sync.Mutex
	failures int
	attempts chan demoAttempt
}

type demoAttempt struct {
	header []byte
	body   []byte
	rcpts  []string
	failed bool
}

type demoRecordingDelivery struct {
	tgt *demoRecordingTarget
	att demoAttempt
}

func (dt *demoRecordingTarget) Start(ctx context.Context, msgMeta *module.MsgMetadata, mailFrom string) (module.Delivery, error) {
	return &demoRecordingDelivery{tgt: dt}, nil
}

func (d *demoRecordingDelivery) AddRcpt(ctx context.Context, rcptTo string, _ smtp.RcptOptions) error {
	d.att.rcpts = append(d.att.rcpts, rcptTo)
	return nil
}

func (d *demoRecordingDelivery) Body(ctx context.Context, header textproto.Header, body buffer.Buffer) error {
	var hdrBlob bytes.Buffer
	if err := textproto.WriteHeader(&hdrBlob, header); err != nil {
		return err
	}
	d.att.header = hdrBlob.Bytes()

	r, err := body.Open()
	if err != nil {
		return err
	}
	defer r.Close()
	d.att.body, err = io.ReadAll(r)
	if err != nil {
		return err
	}

	d.tgt.mu.Lock()
	defer d.tgt.mu.Unlock()
	if d.tgt.failures > 0 {
		d.tgt.failures--
		d.att.failed = true
		return exterrors.WithTemporary(errors.New("try again later"), true)
	}
	return nil
}

func (d *demoRecordingDelivery) Abort(ctx context.Context) error {
	d.tgt.attempts <- d.att
	return nil
}

func (d *demoRecordingDelivery) Commit(ctx context.Context) error {
	d.tgt.attempts <- d.att
	return nil
}

// TestDemo_LargeHeaderSurvivesRetry feeds the queue with a message whose
// header passed the SMTP endpoint's default 1 MiB max_header_size limit and
// then got a few trace fields prepended by the pipeline (as it happens for
// any real message), making the stored header blob slightly bigger than 1 MiB.
//
// The downstream target fails temporarily on the first attempt (which is
// served from memory) and accepts the message on the second one (which is
// re-read from the spool). Both attempts should get exactly the same bytes.
func TestDemo_LargeHeaderSurvivesRetry(t *testing.T) {
	const endpointMaxHeader = 1 * 1024 * 1024

	// Build the header as the client has sent it: a lot of long (folded)
	// fields, 8-bit bytes, duplicates and then the usual fields at the
	// bottom. Total size is a bit below the endpoint limit.
	var raw bytes.Buffer
	for i := 0; raw.Len() < endpointMaxHeader-6*1024; i++ {
		fmt.Fprintf(&raw, "X-Filler-%d: %s\r\n\t%s\r\n", i%7,
			strings.Repeat("a", 900), strings.Repeat("\xe9b", 450))
	}
	raw.WriteString("From: <sender@example.org>\r\n")
	raw.WriteString("To: <rcpt@example.com>\r\n")
	raw.WriteString("Subject: the field everybody cares about\r\n")
	raw.WriteString("Message-Id: <demo@example.org>\r\n")
	raw.WriteString("\r\n")
	if raw.Len() >= endpointMaxHeader {
		t.Fatal("test bug: raw header is too big for the endpoint")
	}

	// Same way the SMTP endpoint parses it (bounded by max_header_size).
	hdr, err := textproto.ReadHeader(bufio.NewReader(io.LimitReader(bytes.NewReader(raw.Bytes()), endpointMaxHeader)))
	if err != nil {
		t.Fatal(err)
	}

	// Fields prepended while the message goes through the pipeline.
	hdr.Add("Authentication-Results", "mx.example.com; spf=pass smtp.mailfrom=example.org; dkim=pass header.d=example.org")
	hdr.Add("DKIM-Signature", "v=1; a=rsa-sha256; d=example.org; s=default; b="+strings.Repeat("QUJD", 512))
	hdr.Add("Received", "from client.example.org (client.example.org [192.0.2.1]) by mx.example.com (envelope-sender <sender@example.org>) with ESMTPS id deadbeef; Thu, 01 Oct 2026 00:00:00 +0000")
	for i := 0; i < 4; i++ {
		hdr.Add("Received", "from hop"+fmt.Sprint(i)+".example.org by hop.example.org with ESMTPS id "+strings.Repeat("0", 900))
	}

	var accepted bytes.Buffer
	if err := textproto.WriteHeader(&accepted, hdr); err != nil {
		t.Fatal(err)
	}
	t.Logf("accepted header blob is %d bytes", accepted.Len())

	bodyBlob := []byte("line one\r\n\x00\xff binary \r\n.\r\nlast line without newline")

	dt := &demoRecordingTarget{failures: 1, attempts: make(chan demoAttempt, 10)}
	q := newTestQueue(t, dt)
	defer cleanQueue(t, q)

	ctx := context.Background()
	msgMeta := &module.MsgMetadata{ID: "demolargeheader", OriginalFrom: "sender@example.org"}
	delivery, err := q.Start(ctx, msgMeta, "sender@example.org")
	if err != nil {
		t.Fatal(err)
	}
	if err := delivery.AddRcpt(ctx, "rcpt@example.com", smtp.RcptOptions{}); err != nil {
		t.Fatal(err)
	}
	if err := delivery.Body(ctx, hdr, buffer.MemoryBuffer{Slice: bodyBlob}); err != nil {
		t.Fatal(err)
	}
	if err := delivery.Commit(ctx); err != nil {
		t.Fatal(err)
	}

	for attempt := 1; attempt <= 2; attempt++ {
		var att demoAttempt
		select {
		case att = <-dt.attempts:
		case <-time.After(10 * time.Second):
			t.Fatalf("attempt %d: timed out", attempt)
		}

		if attempt == 1 && !att.failed {
			t.Fatal("first attempt was expected to fail temporarily")
		}
		if len(att.rcpts) != 1 || att.rcpts[0] != "rcpt@example.com" {
			t.Errorf("attempt %d: wrong recipients: %v", attempt, att.rcpts)
		}
		if !bytes.Equal(att.body, bodyBlob) {
			t.Errorf("attempt %d: body differs from the accepted one", attempt)
		}
		if !bytes.Equal(att.header, accepted.Bytes()) {
			t.Errorf("attempt %d: header differs from the accepted one: got %d bytes, accepted %d bytes",
				attempt, len(att.header), accepted.Len())
			if !bytes.Contains(att.header, []byte("Subject: the field everybody cares about\r\n")) {
				t.Errorf("attempt %d: Subject field is lost", attempt)
			}
		}
	}
}
