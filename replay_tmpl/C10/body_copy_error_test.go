package queue

import (
	"bytes"
	"context"
	"errors"
	"io"
	"os"
	"path/filepath"
	"testing"
	"time"

	"github.com/emersion/go-message/textproto"
	"github.com/emersion/go-smtp"
	"github.com/foxcpp/maddy/framework/module"
	"github.com/foxcpp/maddy/internal/testutils"
)

// demoFlakyBuffer is a buffer.Buffer whose reader hands out only the first
// failAfter bytes of the blob and then fails with an I/O error (think of a
// spilled temporary file on a failing disk, or of ENOSPC on the spool side).
type demoFlakyBuffer struct {
	blob      []byte
	failAfter int
	err       error
}

type demoFlakyReader struct {
	r   io.Reader
	err error
}

func (r *demoFlakyReader) Read(b []byte) (int, error) {
	n, err := r.r.Read(b)
	if err == io.EOF {
		return n, r.err
	}
	return n, err
}

func (fb demoFlakyBuffer) Open() (io.ReadCloser, error) {
	return io.NopCloser(&demoFlakyReader{r: bytes.NewReader(fb.blob[:fb.failAfter]), err: fb.err}), nil
}
func (fb demoFlakyBuffer) Len() int      { return len(fb.blob) }
func (fb demoFlakyBuffer) Remove() error { return nil }

// The queue must never accept (and later hand to the target) a body that
// differs from the one it was given. If the body can't be copied to the spool
// completely, Body has to fail and nothing may be left for delivery.
func TestDemo_C10_BodyCopyFailureIsNotSwallowed(t *testing.T) {
	dt := unreliableTarget{committed: make(chan testutils.Msg, 10)}
	q := newTestQueue(t, &dt)
	defer cleanQueue(t, q)

	full := bytes.Repeat([]byte("0123456789abcdef0123456789abcdef0123456789abcdef0123456789abcd\r\n"), 4096)
	body := demoFlakyBuffer{blob: full, failAfter: len(full) / 2, err: errors.New("read: input/output error")}

	hdr := textproto.Header{}
	hdr.Add("Subject", "demo")

	ctx := context.Background()
	msgMeta := &module.MsgMetadata{ID: "demoC10", OriginalFrom: "sender@example.org"}
	delivery, err := q.Start(ctx, msgMeta, "sender@example.org")
	if err != nil {
		t.Fatal(err)
	}
	if err := delivery.AddRcpt(ctx, "rcpt@example.com", smtp.RcptOptions{}); err != nil {
		t.Fatal(err)
	}

	bodyErr := delivery.Body(ctx, hdr, body)
	if bodyErr != nil {
		// Correct behaviour: message is refused, nothing is left in the spool.
		if err := delivery.Abort(ctx); err != nil {
			t.Fatal(err)
		}
		checkQueueDir(t, q, []string{})
		return
	}

	// Body was accepted. Then the spool must hold exactly the bytes we passed
	// and the target must receive exactly these bytes.
	spooled, err := os.ReadFile(filepath.Join(q.location, "demoC10.body"))
	if err != nil {
		t.Fatal(err)
	}
	if !bytes.Equal(spooled, full) {
		t.Errorf("queue accepted the message, but the spooled body has %d bytes instead of %d", len(spooled), len(full))
	}

	if err := delivery.Commit(ctx); err != nil {
		t.Fatal(err)
	}
	msg := readMsgChanTimeout(t, dt.committed, 5*time.Second)
	if msg == nil {
		t.Fatal("no delivery")
	}
	if !bytes.Equal(msg.Body, full) {
		t.Errorf("target received %d body bytes, the queue was given %d", len(msg.Body), len(full))
	}
}
