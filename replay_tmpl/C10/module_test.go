package module

// Replay for C10 obligations on MsgMetadata.DeepCopy: the copy handed to a delivery target must not share the
// original-recipient mapping with the metadata the queue keeps (and persists on the next retry).

import "testing"

func TestVerifReplayDeepCopy(t *testing.T) {
	for _, orig := range []map[string]string{nil, {}, {"b@example.org": "a@example.org"}} {
		m := &MsgMetadata{ID: "x", OriginalFrom: "s@example.org", OriginalRcpts: orig, TLSRequireOverride: true, Conn: &ConnState{}}
		m.SMTPOpts.UTF8 = true
		m.SMTPOpts.RequireTLS = true
		c := m.DeepCopy()
		if c == m {
			t.Fatalf("REPRODUCED: DeepCopy returned the receiver")
		}
		if c.ID != m.ID || c.OriginalFrom != m.OriginalFrom || c.SMTPOpts != m.SMTPOpts || c.TLSRequireOverride != m.TLSRequireOverride || c.Conn != m.Conn || c.Quarantine != m.Quarantine {
			t.Fatalf("REPRODUCED: DeepCopy changed a field: %+v vs %+v", c, m)
		}
		if len(c.OriginalRcpts) != len(orig) {
			t.Fatalf("REPRODUCED: DeepCopy changed the original-recipient mapping")
		}
		for k, v := range orig {
			if c.OriginalRcpts[k] != v {
				t.Fatalf("REPRODUCED: DeepCopy lost OriginalRcpts[%q]", k)
			}
		}
		if orig == nil {
			continue
		}
		// what a pipeline used as the queue's target does in AddRcpt for a rewritten recipient
		c.OriginalRcpts["rewritten@example.net"] = "b@example.org"
		if _, leaked := m.OriginalRcpts["rewritten@example.net"]; leaked {
			t.Fatalf("REPRODUCED: an entry the target added to its copy's OriginalRcpts appeared in the queue's metadata (map shared by DeepCopy)")
		}
	}
}
