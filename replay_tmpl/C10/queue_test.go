package queue

// Replay oracle for C10 obligations on the queue (deliver, updateMetadataOnDisk, storeNewMessage): the REAL queue with
// a target that fails temporarily on the first attempt; the queue is restarted from the spool in between. On every
// attempt the target must see the same sender, the pending recipients, the SMTPUTF8/REQUIRETLS options, the
// TLS-Required override, the original-recipient mapping, and byte-identical header and body; no file of the spool may
// contain the client's password or user name.

import (
	"bytes"
	"context"
	"errors"
	"os"
	"path/filepath"
	"reflect"
	"strings"
	"testing"
	"time"

	"github.com/emersion/go-message/textproto"
	"github.com/emersion/go-smtp"
	"github.com/foxcpp/maddy/framework/buffer"
	"github.com/foxcpp/maddy/framework/exterrors"
	"github.com/foxcpp/maddy/framework/log"
	"github.com/foxcpp/maddy/framework/module"
	"github.com/foxcpp/maddy/internal/testutils"
)

func vtNewQueue(t *testing.T, dir string, tgt module.DeliveryTarget, retry time.Duration) *Queue {
	mod, _ := NewQueue("", "queue", nil, nil)
	q := mod.(*Queue)
	q.initialRetryTime = retry
	q.retryTimeScale = 1
	q.postInitDelay = 0
	q.maxTries = 5
	q.location = dir
	q.Target = tgt
	q.Log = log.Logger{Out: log.NopOutput{}}
	if err := q.start(1); err != nil {
		t.Fatal(err)
	}
	return q
}

func vtHeaderBytes(h textproto.Header) string {
	var b bytes.Buffer
	textproto.WriteHeader(&b, h)
	return b.String()
}

func TestVerifReplaySpoolRoundTrip(t *testing.T) {
	const secret = "s3cr3t-Pa55w0rd-verif"
	const user = "verif-auth-user"
	bodies := [][]byte{[]byte("line one\r\nline two\r\n"), {}, bytes.Repeat([]byte{0, 255, 13, 10, 'x'}, 5000)}
	for bi, bodyBytes := range bodies {
		dir := t.TempDir()
		failing := &testutils.Target{StartErr: exterrors.WithTemporary(errors.New("try later"), true)}
		q := vtNewQueue(t, dir, failing, time.Hour)
		hdr := textproto.Header{}
		hdr.Add("Subject", "=?utf-8?q?caf=C3=A9?=")
		hdr.Add("X-Long", strings.Repeat("v", 2000))
		hdr.Add("Received", "from a        by b")
		hdr.Add("Received", "from c by d")
		hdr.Add("X-8bit", "caf\xe9")
		meta := &module.MsgMetadata{
			ID:                 "verifid" + string(rune('a'+bi)),
			OriginalFrom:       "Sender@Example.org",
			OriginalRcpts:      map[string]string{"rcpt1@example.org": "alias@example.net"},
			TLSRequireOverride: true,
			Conn:               &module.ConnState{AuthUser: user, AuthPassword: secret},
		}
		meta.SMTPOpts.UTF8 = true
		meta.SMTPOpts.RequireTLS = bi%2 == 0
		ctx := context.Background()
		d, err := q.Start(ctx, meta, "sender@example.org")
		if err != nil {
			t.Fatal(err)
		}
		for _, r := range []string{"rcpt1@example.org", "rcpt2@xn--e1aybc.example"} {
			if err := d.AddRcpt(ctx, r, smtp.RcptOptions{}); err != nil {
				t.Fatal(err)
			}
		}
		if err := d.Body(ctx, hdr, buffer.MemoryBuffer{Slice: bodyBytes}); err != nil {
			t.Fatal(err)
		}
		if err := d.Commit(ctx); err != nil {
			t.Fatal(err)
		}
		time.Sleep(150 * time.Millisecond)
		q.Close()
		// nothing the client authenticated with may be in the spool
		files, _ := filepath.Glob(filepath.Join(dir, "*"))
		for _, f := range files {
			data, _ := os.ReadFile(f)
			if bytes.Contains(data, []byte(secret)) || bytes.Contains(data, []byte(user)) {
				t.Fatalf("REPRODUCED: spool file %s contains the client's credentials", filepath.Base(f))
			}
		}
		// restart with a working target
		ok := &testutils.Target{}
		q2 := vtNewQueue(t, dir, ok, 0)
		deadline := time.Now().Add(5 * time.Second)
		for len(ok.Messages) == 0 && time.Now().Before(deadline) {
			time.Sleep(5 * time.Millisecond)
		}
		q2.Close()
		if len(ok.Messages) != 1 {
			t.Fatalf("REPRODUCED: %d messages delivered after restart, expected 1", len(ok.Messages))
		}
		m := ok.Messages[0]
		if m.MailFrom != "sender@example.org" || !reflect.DeepEqual(m.RcptTo, []string{"rcpt1@example.org", "rcpt2@xn--e1aybc.example"}) {
			t.Fatalf("REPRODUCED: envelope changed by the spool: from %q to %v", m.MailFrom, m.RcptTo)
		}
		if m.MsgMeta.SMTPOpts.UTF8 != true || m.MsgMeta.SMTPOpts.RequireTLS != (bi%2 == 0) || !m.MsgMeta.TLSRequireOverride || m.MsgMeta.OriginalFrom != "Sender@Example.org" {
			t.Fatalf("REPRODUCED: options changed by the spool: %+v", m.MsgMeta)
		}
		if !reflect.DeepEqual(m.MsgMeta.OriginalRcpts, map[string]string{"rcpt1@example.org": "alias@example.net"}) {
			t.Fatalf("REPRODUCED: original-recipient mapping changed by the spool: %v", m.MsgMeta.OriginalRcpts)
		}
		if vtHeaderBytes(m.Header) != vtHeaderBytes(hdr) {
			t.Fatalf("REPRODUCED: header bytes changed by the spool:\n%q\n%q", vtHeaderBytes(m.Header), vtHeaderBytes(hdr))
		}
		if !bytes.Equal(m.Body, bodyBytes) {
			t.Fatalf("REPRODUCED: body bytes changed by the spool (len %d vs %d)", len(m.Body), len(bodyBytes))
		}
	}
}
