package pass_table

import (
	"context"
	"net"
	"testing"

	"github.com/emersion/go-sasl"
	"github.com/foxcpp/maddy/framework/config"
	"github.com/foxcpp/maddy/framework/module"
	"github.com/foxcpp/maddy/internal/auth"
	"github.com/foxcpp/maddy/internal/authz"
	"github.com/foxcpp/maddy/internal/table"
	"github.com/foxcpp/maddy/internal/testutils"
	"golang.org/x/crypto/bcrypt"
)

// demoMutTable is a trivial in-memory module.MutableTable.
type demoMutTable struct{ m map[string]string }

func (t *demoMutTable) Lookup(_ context.Context, k string) (string, bool, error) {
	v, ok := t.m[k]
	return v, ok, nil
}

func (t *demoMutTable) Keys() ([]string, error) {
	var l []string
	for k := range t.m {
		l = append(l, k)
	}
	return l, nil
}
func (t *demoMutTable) RemoveKey(k string) error { delete(t.m, k); return nil }
func (t *demoMutTable) SetKey(k, v string) error { t.m[k] = v; return nil }

// demoAuthVia runs one complete SASL exchange and reports whether it
// succeeded and with which identity.
func demoAuthVia(t *testing.T, s *auth.SASLAuth, mech, user, pass string) (bool, string) {
	t.Helper()

	identity := ""
	srv := s.CreateSASL(mech, &net.TCPAddr{}, func(id string, _ auth.ContextData) error {
		identity = id
		return nil
	})

	var err error
	switch mech {
	case sasl.Plain:
		_, _, err = srv.Next([]byte("\x00" + user + "\x00" + pass))
	case sasl.Login:
		if _, _, err = srv.Next(nil); err != nil {
			break
		}
		if _, _, err = srv.Next([]byte(user)); err != nil {
			break
		}
		_, _, err = srv.Next([]byte(pass))
	}
	return err == nil, identity
}

// TestDemoC14WidthVariantWithStaticMap: an account is reachable through an
// exact-match (static) user-name map under every case, Unicode-normalization
// and width variant of the mapped user name, via both PLAIN and LOGIN, with
// the current password only.
func TestDemoC14WidthVariantWithStaticMap(t *testing.T) {
	addSHA256()

	staticMod, err := table.NewStatic("table.static", "", nil, nil)
	if err != nil {
		t.Fatal(err)
	}
	err = staticMod.Init(config.NewMap(nil, config.Node{
		Children: []config.Node{
			{Name: "entry", Args: []string{"andr\u00e9@example.org", "andre"}},
		},
	}))
	if err != nil {
		t.Fatal(err)
	}

	variants := []string{
		"andr\u00e9@example.org",                      // canonical (NFC)
		"ANDR\u00c9@EXAMPLE.ORG",                      // case variant
		"andre\u0301@example.org",                     // NFD variant
		"\uff41\uff4e\uff44\uff52\u00e9@example.org",  // fullwidth variant of the local part
		"\uff21\uff2e\uff24\uff32E\u0301@Example.ORG", // all of the above
	}

	schemes := []struct {
		name string
		opts HashOpts
	}{
		{HashBcrypt, HashOpts{BcryptCost: bcrypt.MinCost}},
		{HashArgon2, HashOpts{Argon2Time: 1, Argon2Memory: 8, Argon2Threads: 1}},
		{HashSHA256, HashOpts{}},
	}

	for _, scheme := range schemes {
		scheme := scheme
		t.Run(scheme.name, func(t *testing.T) {
			a := &Auth{modName: "pass_table", table: &demoMutTable{m: map[string]string{}}}
			s := &auth.SASLAuth{
				Log:           testutils.Logger(t, "saslauth"),
				EnableLogin:   true,
				AuthMap:       staticMod.(module.Table),
				AuthNormalize: authz.NormalizeAuto,
				Plain:         []module.PlainAuth{a},
			}

			check := func(stage, pass string, want bool) {
				t.Helper()
				for _, user := range variants {
					for _, mech := range []string{sasl.Plain, sasl.Login} {
						ok, id := demoAuthVia(t, s, mech, user, pass)
						if ok != want {
							t.Errorf("%s: %s %q with password %q: accepted=%v, want %v", stage, mech, user, pass, ok, want)
						}
						if ok && id != user {
							t.Errorf("%s: %s %q: identity %q, want %q", stage, mech, user, id, user)
						}
					}
				}
			}

			check("no account", "pässwörd", false)

			if err := a.CreateUserHash("Andre", "pässwörd", scheme.name, scheme.opts); err != nil {
				t.Fatal(err)
			}
			check("created", "pässwörd", true)
			check("created", "other", false)
			check("created", "", false)

			if err := a.SetUserPassword("ANDRE", ""); err != nil {
				t.Fatal(err)
			}
			check("changed", "", true)
			check("changed", "pässwörd", false)

			if err := a.DeleteUser("andre"); err != nil {
				t.Fatal(err)
			}
			check("deleted", "", false)
			check("deleted", "pässwörd", false)
		})
	}
}
