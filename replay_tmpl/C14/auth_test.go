package auth

// Replay oracle for C14 (injected with go test -overlay): PLAIN and LOGIN must give the same decision and report the
// same identity for the same credentials, with and without a user-name map (identity, static, chained).

import (
	"fmt"
	"net"
	"testing"

	"github.com/emersion/go-sasl"
	"github.com/foxcpp/maddy/framework/module"
	"github.com/foxcpp/maddy/internal/testutils"
)

type vrProvider struct{ creds map[string]string }

func (p vrProvider) AuthPlain(username, password string) error {
	if pw, ok := p.creds[username]; ok && pw == password {
		return nil
	}
	return fmt.Errorf("invalid creds")
}

func vrRunMech(a *SASLAuth, mech, user, pass string) (ok bool, identity string) {
	srv := a.CreateSASL(mech, &net.TCPAddr{}, func(id string, data ContextData) error {
		identity = id
		return nil
	})
	var err error
	var done bool
	switch mech {
	case sasl.Plain:
		_, done, err = srv.Next([]byte("\x00" + user + "\x00" + pass))
	case sasl.Login:
		_, _, err = srv.Next(nil)
		if err == nil {
			_, _, err = srv.Next([]byte(user))
		}
		if err == nil {
			_, done, err = srv.Next([]byte(pass))
		}
	}
	return err == nil && done, identity
}

func TestVerifReplayPlainVsLogin(t *testing.T) {
	prov := vrProvider{creds: map[string]string{"bob": "pw", "alice": "apw", "carol": "cpw"}}
	maps := map[string]module.Table{
		"no map":        nil,
		"identity map":  testutils.Table{M: map[string]string{"alice": "alice", "bob": "bob", "carol": "carol"}},
		"static map":    testutils.Table{M: map[string]string{"alice": "bob"}},
		"chained map":   testutils.Table{M: map[string]string{"alice": "bob", "bob": "carol"}},
	}
	bad := 0
	for name, m := range maps {
		a := &SASLAuth{Log: testutils.Logger(t, "saslauth"), EnableLogin: true, AuthMap: m, Plain: []module.PlainAuth{prov}}
		for _, user := range []string{"alice", "bob", "carol", "dave"} {
			for _, pass := range []string{"pw", "apw", "cpw", ""} {
				pOK, pID := vrRunMech(a, sasl.Plain, user, pass)
				lOK, lID := vrRunMech(a, sasl.Login, user, pass)
				if pOK != lOK || (pOK && pID != lID) {
					bad++
					if bad <= 6 {
						t.Logf("REPRODUCED: %s, user %q password %q: PLAIN accepted=%v identity=%q, LOGIN accepted=%v identity=%q", name, user, pass, pOK, pID, lOK, lID)
					}
				}
			}
		}
	}
	if bad > 0 {
		t.Fatalf("%d credential pairs are decided differently by PLAIN and LOGIN", bad)
	}
}
