package pass_table

// Replay oracle for C14 (injected with go test -overlay): random histories of account operations against a reference
// map; authentication must succeed exactly with the password most recently set for the normalised user name.

import (
	"context"
	"math/rand"
	"os"
	"strconv"
	"strings"
	"testing"

	"golang.org/x/text/secure/precis"
)

type vrTable struct{ m map[string]string }

func (t *vrTable) Lookup(_ context.Context, k string) (string, bool, error) {
	v, ok := t.m[k]
	return v, ok, nil
}
func (t *vrTable) Keys() ([]string, error) {
	var ks []string
	for k := range t.m {
		ks = append(ks, k)
	}
	return ks, nil
}
func (t *vrTable) RemoveKey(k string) error { delete(t.m, k); return nil }
func (t *vrTable) SetKey(k, v string) error { t.m[k] = v; return nil }

func TestVerifReplayPasswordHistory(t *testing.T) {
	seed := int64(1)
	if s := os.Getenv("VERIF_SEED"); s != "" {
		if n, err := strconv.ParseInt(s, 10, 64); err == nil {
			seed = n
		}
	}
	rnd := rand.New(rand.NewSource(seed))
	users := []string{"alice", "Alice", "ALICE", "bob", "böb", "böb"}
	passwords := []string{"", "pw", "päss", strings.Repeat("x", 71) + "A", strings.Repeat("x", 71) + "B", strings.Repeat("x", 80) + "A", strings.Repeat("x", 80) + "B"}
	bad := 0
	for round := 0; round < 6; round++ {
		a := &Auth{modName: "auth.pass_table", table: &vrTable{m: map[string]string{}}}
		ref := map[string]string{}
		for step := 0; step < 10; step++ {
			u := users[rnd.Intn(len(users))]
			p := passwords[rnd.Intn(len(passwords))]
			key, kerr := precis.UsernameCaseMapped.CompareKey(u)
			switch rnd.Intn(4) {
			case 0:
				if err := a.CreateUserHash(u, p, HashBcrypt, HashOpts{BcryptCost: 4}); err == nil && kerr == nil {
					ref[key] = p
				}
			case 1:
				if err := a.SetUserPassword(u, p); err == nil && kerr == nil {
					ref[key] = p
				}
			case 2:
				if err := a.DeleteUser(u); err == nil && kerr == nil {
					delete(ref, key)
				}
			}
			// authenticate every user name with every password
			for _, au := range users {
				ak, akerr := precis.UsernameCaseMapped.CompareKey(au)
				for _, ap := range passwords {
					got := a.AuthPlain(au, ap) == nil
					cur, has := ref[ak]
					want := akerr == nil && has && cur == ap
					if got != want {
						bad++
						if bad <= 5 {
							t.Logf("REPRODUCED: user %q password (len %d) accepted=%v, reference says %v (current password len %d, account exists %v)", au, len(ap), got, want, len(cur), has)
						}
					}
				}
			}
		}
	}
	if bad > 0 {
		t.Fatalf("%d authentication decisions differ from 'the password most recently set'", bad)
	}
}
