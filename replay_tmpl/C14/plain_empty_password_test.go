package auth

import (
	"context"
	"net"
	"sync"
	"testing"

	"github.com/emersion/go-sasl"
	"github.com/foxcpp/maddy/framework/config"
	"github.com/foxcpp/maddy/framework/module"
	"github.com/foxcpp/maddy/internal/auth/pass_table"
	"github.com/foxcpp/maddy/internal/authz"
	"github.com/foxcpp/maddy/internal/testutils"
)

// zzDemoTable is a trivial in-memory module.MutableTable used as the
// credentials store of a real auth.pass_table instance.
type zzDemoTable struct {
	mu sync.Mutex
	m  map[string]string
}

func (t *zzDemoTable) Name() string               { return "table.zzdemo" }
func (t *zzDemoTable) InstanceName() string       { return "" }
func (t *zzDemoTable) Init(cfg *config.Map) error { return nil }

func (t *zzDemoTable) Lookup(_ context.Context, k string) (string, bool, error) {
	t.mu.Lock()
	defer t.mu.Unlock()
	v, ok := t.m[k]
	return v, ok, nil
}

func (t *zzDemoTable) Keys() ([]string, error) {
	t.mu.Lock()
	defer t.mu.Unlock()
	var ks []string
	for k := range t.m {
		ks = append(ks, k)
	}
	return ks, nil
}

func (t *zzDemoTable) RemoveKey(k string) error {
	t.mu.Lock()
	defer t.mu.Unlock()
	delete(t.m, k)
	return nil
}

func (t *zzDemoTable) SetKey(k, v string) error {
	t.mu.Lock()
	defer t.mu.Unlock()
	t.m[k] = v
	return nil
}

func init() {
	module.Register("table.zzdemo", func(_, _ string, _, _ []string) (module.Module, error) {
		return &zzDemoTable{m: map[string]string{}}, nil
	})
}

type zzOutcome struct {
	ok       bool
	identity string
}

func zzPlain(s *SASLAuth, user, pass string) zzOutcome {
	var out zzOutcome
	srv := s.CreateSASL(sasl.Plain, &net.TCPAddr{}, func(id string, _ ContextData) error {
		out.identity = id
		return nil
	})
	_, done, err := srv.Next([]byte("\x00" + user + "\x00" + pass))
	out.ok = done && err == nil
	return out
}

func zzLogin(s *SASLAuth, user, pass string) zzOutcome {
	var out zzOutcome
	srv := s.CreateSASL(sasl.Login, &net.TCPAddr{}, func(id string, _ ContextData) error {
		out.identity = id
		return nil
	})
	// No initial response: Username: / Password: challenges.
	if _, done, err := srv.Next(nil); done || err != nil {
		return out
	}
	if _, done, err := srv.Next([]byte(user)); done || err != nil {
		return out
	}
	// An empty line is decoded by go-smtp to an empty non-nil slice.
	_, done, err := srv.Next(append([]byte{}, pass...))
	out.ok = done && err == nil
	return out
}

// TestZZDemo_CurrentPasswordPlainLogin runs a short account history against
// a real pass_table behind SASLAuth and checks that, at each point, PLAIN and
// LOGIN both succeed exactly with the password most recently set for the
// account.
func TestZZDemo_CurrentPasswordPlainLogin(t *testing.T) {
	mod, err := pass_table.New("auth.pass_table", "", nil, []string{"zzdemo"})
	if err != nil {
		t.Fatal(err)
	}
	if err := mod.Init(config.NewMap(nil, config.Node{})); err != nil {
		t.Fatal(err)
	}
	pt := mod.(*pass_table.Auth)

	s := &SASLAuth{
		Log:           testutils.Logger(t, "saslauth"),
		EnableLogin:   true,
		AuthNormalize: authz.NormalizeFuncs["precis_casefold_email"],
		Plain:         []module.PlainAuth{pt},
	}
	if s.AuthNormalize == nil {
		t.Fatal("no precis_casefold_email normalization function")
	}

	const user = "alice@example.org"

	// current == nil: account does not exist.
	check := func(step string, current *string) {
		t.Helper()
		for _, cand := range []string{"", "hunter2", "first", "x"} {
			want := current != nil && cand == *current
			for _, name := range []string{user, "Alice@Example.ORG"} {
				p := zzPlain(s, name, cand)
				l := zzLogin(s, name, cand)
				if p.ok != want {
					t.Errorf("%s: PLAIN user=%q pass=%q: success=%v, want %v", step, name, cand, p.ok, want)
				}
				if l.ok != want {
					t.Errorf("%s: LOGIN user=%q pass=%q: success=%v, want %v", step, name, cand, l.ok, want)
				}
				if p.ok != l.ok || p.identity != l.identity {
					t.Errorf("%s: PLAIN and LOGIN disagree for user=%q pass=%q: %+v vs %+v", step, name, cand, p, l)
				}
				if p.ok && p.identity != name {
					t.Errorf("%s: PLAIN identity %q, want %q", step, p.identity, name)
				}
			}
		}
	}
	str := func(s string) *string { return &s }

	check("no account", nil)

	if err := pt.CreateUserHash(user, "first", pass_table.HashBcrypt, pass_table.HashOpts{BcryptCost: 4}); err != nil {
		t.Fatal(err)
	}
	check("created with 'first'", str("first"))

	if err := pt.SetUserPassword(user, "hunter2"); err != nil {
		t.Fatal(err)
	}
	check("password changed to 'hunter2'", str("hunter2"))

	// The password is reset to the empty one (e.g. an account provisioned
	// without a password yet).
	if err := pt.SetUserPassword(user, ""); err != nil {
		t.Fatal(err)
	}
	check("password changed to ''", str(""))

	if err := pt.SetUserPassword(user, "x"); err != nil {
		t.Fatal(err)
	}
	check("password changed to 'x'", str("x"))

	if err := pt.DeleteUser(user); err != nil {
		t.Fatal(err)
	}
	check("deleted", nil)

	if err := pt.CreateUserHash(user, "", pass_table.HashBcrypt, pass_table.HashOpts{BcryptCost: 4}); err != nil {
		t.Fatal(err)
	}
	check("re-created with ''", str(""))
}
