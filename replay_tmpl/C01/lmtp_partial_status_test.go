package smtp_downstream

import (
	"bufio"
	"context"
	"net"
	"strings"
	"testing"

	"github.com/emersion/go-message/textproto"
	"github.com/emersion/go-smtp"
	"github.com/foxcpp/maddy/framework/buffer"
	"github.com/foxcpp/maddy/framework/config"
	"github.com/foxcpp/maddy/framework/module"
	"github.com/foxcpp/maddy/internal/testutils"
)

// scriptedLMTP accepts a single connection, goes through the LMTP dialog for
// any number of recipients, but after the message data it reports the status
// of the first recipient only and drops the connection.
func scriptedLMTP(t *testing.T) (host, port string, done chan struct{}) {
	t.Helper()

	l, err := net.Listen("tcp", "127.0.0.1:0")
	if err != nil {
		t.Fatal(err)
	}
	done = make(chan struct{})

	go func() {
		defer close(done)
		defer l.Close()

		c, err := l.Accept()
		if err != nil {
			return
		}
		defer c.Close()

		r := bufio.NewReader(c)
		say := func(s string) { c.Write([]byte(s + "\r\n")) }

		say("220 scripted LMTP ready")
		inData := false
		for {
			line, err := r.ReadString('\n')
			if err != nil {
				return
			}
			line = strings.TrimRight(line, "\r\n")
			if inData {
				if line == "." {
					// Status for the first recipient only, then the
					// connection is lost.
					say("250 2.0.0 first recipient OK")
					return
				}
				continue
			}
			cmd := strings.ToUpper(line)
			switch {
			case strings.HasPrefix(cmd, "LHLO"):
				say("250-scripted")
				say("250 ENHANCEDSTATUSCODES")
			case strings.HasPrefix(cmd, "MAIL"), strings.HasPrefix(cmd, "RCPT"), strings.HasPrefix(cmd, "RSET"), strings.HasPrefix(cmd, "NOOP"):
				say("250 2.0.0 OK")
			case strings.HasPrefix(cmd, "DATA"):
				say("354 go ahead")
				inData = true
			case strings.HasPrefix(cmd, "QUIT"):
				say("221 2.0.0 bye")
				return
			default:
				say("502 5.5.1 unknown command")
			}
		}
	}()

	host, port, err = net.SplitHostPort(l.Addr().String())
	if err != nil {
		t.Fatal(err)
	}
	return host, port, done
}

// queueLikeCollector records statuses the way the queue does: recipients
// without a recorded error are considered delivered.
type queueLikeCollector map[string]error

func (c queueLikeCollector) SetStatus(rcptTo string, err error) {
	if err == nil {
		return
	}
	c[rcptTo] = err
}

func TestDemo_LMTP_ConnectionLostAfterFirstStatus(t *testing.T) {
	host, port, done := scriptedLMTP(t)

	mod := &Downstream{
		hostname: "mx.example.invalid",
		endpoints: []config.Endpoint{
			{Scheme: "tcp", Host: host, Port: port},
		},
		modName: "target.lmtp",
		lmtp:    true,
		log:     testutils.Logger(t, "lmtp_downstream"),
	}

	ctx := context.Background()
	msgMeta := &module.MsgMetadata{ID: "demo", OriginalFrom: "test@example.invalid", DontTraceSender: true}

	delivery, err := mod.Start(ctx, msgMeta, "test@example.invalid")
	if err != nil {
		t.Fatal("Start:", err)
	}
	rcpts := []string{"rcpt1@example.invalid", "rcpt2@example.invalid"}
	for _, rcpt := range rcpts {
		if err := delivery.AddRcpt(ctx, rcpt, smtp.RcptOptions{}); err != nil {
			t.Fatal("AddRcpt:", rcpt, err)
		}
	}

	sc := queueLikeCollector{}
	hdr := textproto.Header{}
	hdr.Add("A", "1")
	delivery.(module.PartialDelivery).BodyNonAtomic(ctx, sc, hdr, buffer.MemoryBuffer{Slice: []byte("foobar\r\n")})
	// Commit result is of no interest here, the connection is gone.
	_ = delivery.Commit(ctx)
	<-done

	if err := sc["rcpt1@example.invalid"]; err != nil {
		t.Error("rcpt1 was accepted by the server, unexpected error:", err)
	}
	// The server never confirmed rcpt2. Without an error status the queue
	// treats it as delivered and drops it: no retry, no DSN.
	if sc["rcpt2@example.invalid"] == nil {
		t.Fatal("rcpt2: server never reported a status but no error was recorded, the queue would consider it delivered (message silently lost)")
	}
}
