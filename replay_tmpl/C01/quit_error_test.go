package smtp_downstream

import (
	"bufio"
	"context"
	"net"
	"strings"
	"sync"
	"testing"

	"github.com/emersion/go-message/textproto"
	"github.com/emersion/go-smtp"
	"github.com/foxcpp/maddy/framework/buffer"
	"github.com/foxcpp/maddy/framework/config"
	"github.com/foxcpp/maddy/framework/exterrors"
	"github.com/foxcpp/maddy/framework/module"
	"github.com/foxcpp/maddy/internal/testutils"
)

// demoScriptedServer is a minimal SMTP server that accepts every message
// (250 after the final dot) and then misbehaves on QUIT in the requested way.
type demoScriptedServer struct {
	l net.Listener

	// "421": reply 421 to QUIT and close, "drop": close without reply,
	// "500": reply 500 to QUIT and close, "": well-behaved 221.
	quitMode string

	mu       sync.Mutex
	accepted int // messages acknowledged with 250 after DATA
}

func newDemoScriptedServer(t *testing.T, quitMode string) *demoScriptedServer {
	l, err := net.Listen("tcp", "127.0.0.1:0")
	if err != nil {
		t.Fatal(err)
	}
	s := &demoScriptedServer{l: l, quitMode: quitMode}
	go func() {
		for {
			c, err := l.Accept()
			if err != nil {
				return
			}
			go s.serve(c)
		}
	}()
	return s
}

func (s *demoScriptedServer) port() string {
	_, port, _ := net.SplitHostPort(s.l.Addr().String())
	return port
}

func (s *demoScriptedServer) acceptedCount() int {
	s.mu.Lock()
	defer s.mu.Unlock()
	return s.accepted
}

func (s *demoScriptedServer) serve(c net.Conn) {
	defer c.Close()
	r := bufio.NewReader(c)
	say := func(l string) { c.Write([]byte(l + "\r\n")) }

	say("220 mx.demo.invalid ESMTP")
	for {
		line, err := r.ReadString('\n')
		if err != nil {
			return
		}
		cmd := strings.ToUpper(strings.TrimSpace(line))
		switch {
		case strings.HasPrefix(cmd, "EHLO"):
			say("250-mx.demo.invalid")
			say("250-ENHANCEDSTATUSCODES")
			say("250 8BITMIME")
		case strings.HasPrefix(cmd, "MAIL FROM"), strings.HasPrefix(cmd, "RCPT TO"), cmd == "RSET", cmd == "NOOP":
			say("250 2.0.0 OK")
		case cmd == "DATA":
			say("354 Go ahead")
			for {
				l, err := r.ReadString('\n')
				if err != nil {
					return
				}
				if l == ".\r\n" {
					break
				}
			}
			s.mu.Lock()
			s.accepted++
			s.mu.Unlock()
			say("250 2.0.0 Message accepted for delivery")
		case cmd == "QUIT":
			switch s.quitMode {
			case "421":
				say("421 4.4.2 mx.demo.invalid closing connection, idle timeout")
			case "500":
				say("500 5.5.1 Command unrecognized")
			case "drop":
			default:
				say("221 2.0.0 Bye")
			}
			return
		default:
			say("502 5.5.1 Not implemented")
		}
	}
}

// demoAttempt mirrors one delivery attempt of target/queue (queue.deliver)
// for a target that does not implement PartialDelivery: stage-by-stage error
// attribution to the recipients.
func demoAttempt(t *testing.T, tgt module.DeliveryTarget, from string, rcpts []string) map[string]error {
	errs := map[string]error{}
	ctx := context.Background()

	delivery, err := tgt.Start(ctx, &module.MsgMetadata{ID: "demo-msg", OriginalFrom: from}, from)
	if err != nil {
		for _, rcpt := range rcpts {
			errs[rcpt] = err
		}
		return errs
	}

	var accepted []string
	for _, rcpt := range rcpts {
		if err := delivery.AddRcpt(ctx, rcpt, smtp.RcptOptions{}); err != nil {
			errs[rcpt] = err
		} else {
			accepted = append(accepted, rcpt)
		}
	}
	if len(accepted) == 0 {
		delivery.Abort(ctx)
		return errs
	}

	hdr := textproto.Header{}
	hdr.Add("Subject", "demo")
	body := buffer.MemoryBuffer{Slice: []byte("foobar\r\n")}
	if err := delivery.Body(ctx, hdr, body); err != nil {
		for _, rcpt := range accepted {
			errs[rcpt] = err
		}
		delivery.Abort(ctx)
		return errs
	}

	if err := delivery.Commit(ctx); err != nil {
		t.Logf("Commit failed: %v (fields: %v)", err, exterrors.Fields(err))
		for _, rcpt := range accepted {
			if errs[rcpt] == nil {
				errs[rcpt] = err
			}
		}
	}
	return errs
}

// The downstream server acknowledges the message (250 after the final dot)
// and only then fails the QUIT command. The message is committed downstream,
// the one and only outcome for the recipient must be "delivered": no retry
// (duplicate), no bounce.
func TestDemo_QuitFailureAfterAcceptedMessage(t *testing.T) {
	const (
		maxTries = 5
		rcpt     = "rcpt@example.invalid"
	)

	for _, mode := range []string{"421", "drop", "500"} {
		mode := mode
		t.Run("QUIT_"+mode, func(t *testing.T) {
			srv := newDemoScriptedServer(t, mode)
			defer srv.l.Close()

			mod := &Downstream{
				modName:  "target.smtp",
				hostname: "mx.example.invalid",
				endpoints: []config.Endpoint{
					{Scheme: "tcp", Host: "127.0.0.1", Port: srv.port()},
				},
				log: testutils.Logger(t, "target.smtp"),
			}

			// Same loop as queue.tryDelivery: retry on temporary or
			// unclassified failure, report (DSN) on permanent failure.
			delivered, bounced := 0, 0
			attempts := 0
			for attempts < maxTries {
				attempts++
				errs := demoAttempt(t, mod, "sender@example.invalid", []string{rcpt})
				err, failed := errs[rcpt]
				if !failed {
					delivered++
					break
				}
				if !exterrors.IsTemporaryOrUnspec(err) || attempts >= maxTries {
					bounced++
					break
				}
			}

			if got := srv.acceptedCount(); got != 1 {
				t.Errorf("downstream committed the message %d times for %s, want exactly once", got, rcpt)
			}
			if attempts != 1 {
				t.Errorf("recipient was attempted %d times, want 1 (re-attempted after success)", attempts)
			}
			if delivered != 1 || bounced != 0 {
				t.Errorf("outcomes for %s: delivered=%d bounced=%d, want delivered=1 bounced=0", rcpt, delivered, bounced)
			}
		})
	}
}
