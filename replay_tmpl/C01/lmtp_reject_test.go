// Replay oracle (injected with go test -overlay): the demonstration a sub-agent wrote for the seeded change
// C01-lmtp-rcpt-recorded-before-accept; it passes on the unchanged tree and fails when the property is broken that way.
package queue

import (
	"bytes"
	"net"
	"reflect"
	"strings"
	"testing"
	"time"

	"github.com/emersion/go-smtp"
	"github.com/foxcpp/maddy/framework/config"
	"github.com/foxcpp/maddy/framework/module"
	smtp_downstream "github.com/foxcpp/maddy/internal/target/smtp"
	"github.com/foxcpp/maddy/internal/testutils"
)

func demoFreePort(t *testing.T) string {
	t.Helper()
	l, err := net.Listen("tcp", "127.0.0.1:0")
	if err != nil {
		t.Fatal(err)
	}
	defer l.Close()
	_, port, err := net.SplitHostPort(l.Addr().String())
	if err != nil {
		t.Fatal(err)
	}
	return port
}

// Queue -> real target.lmtp client -> scripted LMTP server.
//
// Three recipients, single attempt, only permanent faults:
//
//	rcpt-a: accepted, body status 250            => committed downstream
//	rcpt-b: rejected at the RCPT stage with 550  => must be reported (DSN)
//	rcpt-c: accepted, per-recipient body status 550 => must be reported (DSN)
//
// Every recipient has to end in exactly one terminal outcome.
func TestDemo_LMTP_RcptRejectThenBodyStatusFail(t *testing.T) {
	const (
		rcptA = "rcpt-a@example.invalid"
		rcptB = "rcpt-b@example.invalid"
		rcptC = "rcpt-c@example.invalid"
	)

	port := demoFreePort(t)
	be, srv := testutils.SMTPServer(t, "127.0.0.1:"+port, func(srv *smtp.Server) {
		srv.LMTP = true
	})
	defer srv.Close()

	be.RcptErr = map[string]error{
		rcptB: &smtp.SMTPError{
			Code:         550,
			EnhancedCode: smtp.EnhancedCode{5, 1, 1},
			Message:      "no such user",
		},
	}
	// Indexed by the position among the recipients accepted by the server
	// (rcpt-a, rcpt-c).
	be.LMTPDataErr = []error{
		nil,
		&smtp.SMTPError{
			Code:         550,
			EnhancedCode: smtp.EnhancedCode{5, 2, 2},
			Message:      "mailbox is full",
		},
	}

	mod, err := smtp_downstream.NewDownstream("target.lmtp", "demo_lmtp", nil, []string{"tcp://127.0.0.1:" + port})
	if err != nil {
		t.Fatal(err)
	}
	lmtpTarget := mod.(*smtp_downstream.Downstream)
	if err := lmtpTarget.Init(config.NewMap(map[string]interface{}{
		"hostname": "mx.example.invalid",
	}, config.Node{})); err != nil {
		t.Fatal("target.lmtp init:", err)
	}

	dsnTarget := unreliableTarget{
		committed: make(chan testutils.Msg, 10),
		aborted:   make(chan testutils.Msg, 10),
	}

	q := newTestQueue(t, module.DeliveryTarget(lmtpTarget))
	q.hostname = "mx.example.org"
	q.autogenMsgDomain = "example.org"
	q.dsnPipeline = &dsnTarget
	defer cleanQueue(t, q)

	testutils.DoTestDelivery(t, q, "sender@example.com", []string{rcptA, rcptB, rcptC})

	// rcpt-b and rcpt-c failed permanently on the first attempt, a failure
	// report has to be handed to the bounce pipeline.
	dsn := readMsgChanTimeout(t, dsnTarget.committed, 10*time.Second)
	q.Close()

	if !reflect.DeepEqual(dsn.RcptTo, []string{"sender@example.com"}) {
		t.Fatalf("wrong RCPT TO of the failure report: %v", dsn.RcptTo)
	}

	// The downstream saw exactly one transaction, for rcpt-a and rcpt-c.
	if len(be.Messages) != 1 {
		t.Fatalf("downstream got %d messages, want 1", len(be.Messages))
	}
	if !reflect.DeepEqual(be.Messages[0].To, []string{rcptA, rcptC}) {
		t.Fatalf("downstream accepted recipients: %v", be.Messages[0].To)
	}

	// No retries are pending, all outcomes are terminal.
	checkQueueDir(t, q, []string{})

	select {
	case extra := <-dsnTarget.committed:
		t.Errorf("more than one failure report was generated: %v", extra.RcptTo)
	default:
	}

	named := func(rcpt string) int {
		return bytes.Count(dsn.Body, []byte("Final-Recipient: rfc822; "+rcpt))
	}
	t.Log("failure report:\n" + strings.ReplaceAll(string(dsn.Body), "\r\n", "\n"))

	// rcpt-a was committed downstream, no report.
	if n := named(rcptA); n != 0 {
		t.Errorf("%s was delivered but is named in the failure report %d time(s)", rcptA, n)
	}
	// rcpt-b was rejected at RCPT, exactly one report.
	if n := named(rcptB); n != 1 {
		t.Errorf("%s (RCPT 550) is named in the failure report %d time(s), want 1", rcptB, n)
	}
	// rcpt-c was rejected by the per-recipient body status, exactly one report.
	// The server did not deliver it; if it is not reported, it is silently lost.
	if n := named(rcptC); n != 1 {
		t.Errorf("%s (LMTP body status 550) is named in the failure report %d time(s), want 1: mail silently lost", rcptC, n)
	}
	// And the diagnostic of rcpt-b should be its own, not the one of rcpt-c.
	if bytes.Contains(dsn.Body, []byte("mailbox is full")) && named(rcptC) == 0 {
		t.Errorf("status of %s was attributed to another recipient", rcptC)
	}
}
