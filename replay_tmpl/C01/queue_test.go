package queue

// Replay oracle for C01 obligations on the queue (tryDelivery, deliver, partialError.SetStatus):
// scripted delivery targets (atomic and per-recipient) driven by fault plans stage x recipient x {ok, temporary,
// permanent, unclassified} for the first attempts, then success; the REAL queue runs on top of them with a bounce
// target. After quiescence every recipient must have exactly one terminal outcome (committed once, or named in
// exactly one failure report), must never be re-attempted after success or a permanent failure, and never more than
// max_tries times. Prints REPRODUCED with the fault plan when the real code violates that.

import (
	"context"
	"errors"
	"fmt"
	"os"
	"path/filepath"
	"regexp"
	"strings"
	"sync"
	"testing"
	"time"

	"github.com/emersion/go-message/textproto"
	"github.com/emersion/go-smtp"
	"github.com/foxcpp/maddy/framework/buffer"
	"github.com/foxcpp/maddy/framework/exterrors"
	"github.com/foxcpp/maddy/framework/log"
	"github.com/foxcpp/maddy/framework/module"
	"github.com/foxcpp/maddy/internal/testutils"
)

type vKind int

const (
	vOK vKind = iota
	vTemp
	vPerm
	vUnspec
)

func (k vKind) err(what string) error {
	switch k {
	case vTemp:
		return exterrors.WithTemporary(errors.New(what+": temporary"), true)
	case vPerm:
		return exterrors.WithTemporary(errors.New(what+": permanent"), false)
	case vUnspec:
		return errors.New(what + ": unclassified")
	}
	return nil
}

func (k vKind) retryable() bool { return k == vTemp || k == vUnspec }

// vPlan: faults of one attempt.
type vPlan struct {
	start  vKind
	rcpt   map[string]vKind
	body   vKind            // atomic body stage
	status map[string]vKind // per-recipient body statuses (partial targets)
	commit vKind
}

func (p vPlan) String() string {
	return fmt.Sprintf("{start:%d rcpt:%v body:%d status:%v commit:%d}", p.start, p.rcpt, p.body, p.status, p.commit)
}

type vTarget struct {
	mu      sync.Mutex
	partial bool
	plans   []vPlan
	attempt int
	// observations
	attempts   map[string][]vKind // per recipient: the outcome of every attempt that included it
	committed  map[string]int
	violations []string
	open       int
}

func (t *vTarget) Start(ctx context.Context, msgMeta *module.MsgMetadata, mailFrom string) (module.Delivery, error) {
	t.mu.Lock()
	defer t.mu.Unlock()
	var plan vPlan
	if t.attempt < len(t.plans) {
		plan = t.plans[t.attempt]
	}
	t.attempt++
	d := &vDelivery{t: t, plan: plan, outcome: map[string]vKind{}}
	if plan.start != vOK {
		d.startFailed = true
		// every pending recipient shares the outcome; recorded when the queue shows us the recipients: we cannot
		// see them here, so the test passes the pending list through t.pending
		for _, r := range t.pendingLocked() {
			t.attempts[r] = append(t.attempts[r], plan.start)
		}
		return nil, plan.start.err("start")
	}
	t.open++
	if d.t.partial {
		return &vPartialDelivery{d}, nil
	}
	return d, nil
}

// pendingLocked: recipients that have not reached a terminal outcome by the oracle's own bookkeeping.
func (t *vTarget) pendingLocked() []string {
	var out []string
	for r, as := range t.attempts {
		if len(as) == 0 || as[len(as)-1].retryable() {
			out = append(out, r)
		}
	}
	return out
}

type vDelivery struct {
	t           *vTarget
	plan        vPlan
	accepted    []string
	outcome     map[string]vKind
	startFailed bool
	closed      bool
	bodyDone    bool
}

type vPartialDelivery struct{ *vDelivery }

func (d *vDelivery) AddRcpt(ctx context.Context, to string, _ smtp.RcptOptions) error {
	d.t.mu.Lock()
	defer d.t.mu.Unlock()
	if d.closed {
		d.t.violations = append(d.t.violations, "AddRcpt on a closed delivery")
	}
	as := d.t.attempts[to]
	if len(as) > 0 && !as[len(as)-1].retryable() {
		d.t.violations = append(d.t.violations, fmt.Sprintf("recipient %s re-attempted after outcome %d", to, as[len(as)-1]))
	}
	if k := d.plan.rcpt[to]; k != vOK {
		d.outcome[to] = k
		return k.err("rcpt " + to)
	}
	d.accepted = append(d.accepted, to)
	d.outcome[to] = vOK
	return nil
}

func (d *vDelivery) Body(ctx context.Context, header textproto.Header, body buffer.Buffer) error {
	d.t.mu.Lock()
	defer d.t.mu.Unlock()
	if d.closed {
		d.t.violations = append(d.t.violations, "Body on a closed delivery")
	}
	d.bodyDone = true
	if d.plan.body != vOK {
		for _, r := range d.accepted {
			d.outcome[r] = d.plan.body
		}
		return d.plan.body.err("body")
	}
	return nil
}

func (d *vPartialDelivery) BodyNonAtomic(ctx context.Context, c module.StatusCollector, header textproto.Header, body buffer.Buffer) {
	d.t.mu.Lock()
	type st struct {
		r string
		k vKind
	}
	var sts []st
	if d.closed {
		d.t.violations = append(d.t.violations, "BodyNonAtomic on a closed delivery")
	}
	d.bodyDone = true
	for _, r := range d.accepted {
		k := d.plan.status[r]
		d.outcome[r] = k
		sts = append(sts, st{r, k})
	}
	d.t.mu.Unlock()
	for _, s := range sts {
		c.SetStatus(s.r, s.k.err("status "+s.r))
	}
}

func (d *vDelivery) finish() {
	// record per-recipient outcomes of this attempt
	for r, k := range d.outcome {
		d.t.attempts[r] = append(d.t.attempts[r], k)
	}
}

func (d *vDelivery) Abort(ctx context.Context) error {
	d.t.mu.Lock()
	defer d.t.mu.Unlock()
	if d.closed {
		d.t.violations = append(d.t.violations, "delivery closed twice (Abort)")
	}
	d.closed = true
	d.t.open--
	// nothing is delivered: recipients that looked fine so far were not delivered; the queue must have an error for
	// them (it only aborts when every accepted recipient failed), so their oracle outcome is whatever failed them
	for _, r := range d.accepted {
		if d.outcome[r] == vOK {
			d.t.violations = append(d.t.violations, fmt.Sprintf("Abort although recipient %s had no failure", r))
		}
	}
	d.finish()
	return nil
}

func (d *vDelivery) Commit(ctx context.Context) error {
	d.t.mu.Lock()
	defer d.t.mu.Unlock()
	if d.closed {
		d.t.violations = append(d.t.violations, "delivery closed twice (Commit)")
	}
	if !d.bodyDone {
		d.t.violations = append(d.t.violations, "Commit without a body stage")
	}
	d.closed = true
	d.t.open--
	if d.plan.commit != vOK {
		for _, r := range d.accepted {
			if d.outcome[r] == vOK {
				d.outcome[r] = d.plan.commit
			}
		}
		d.finish()
		return d.plan.commit.err("commit")
	}
	for _, r := range d.accepted {
		if d.outcome[r] == vOK {
			d.t.committed[r]++
		}
	}
	d.finish()
	return nil
}

var vFinalRcpt = regexp.MustCompile(`(?m)^Final-Recipient: [^;]+; ?(.*?)\r?$`)

func vRun(t *testing.T, partial bool, rcpts []string, plans []vPlan, maxTries int) (problems []string) {
	tgt := &vTarget{partial: partial, plans: plans, attempts: map[string][]vKind{}, committed: map[string]int{}}
	for _, r := range rcpts {
		tgt.attempts[r] = nil
	}
	dsnTgt := &testutils.Target{}
	dir := t.TempDir()
	mod, _ := NewQueue("", "queue", nil, nil)
	q := mod.(*Queue)
	q.initialRetryTime = 0
	q.retryTimeScale = 1
	q.postInitDelay = 0
	q.maxTries = maxTries
	q.location = dir
	q.Target = tgt
	q.dsnPipeline = dsnTgt
	q.hostname = "mx.example.org"
	q.autogenMsgDomain = "example.org"
	q.Log = log.Logger{Out: log.NopOutput{}}
	if err := q.start(1); err != nil {
		t.Fatal(err)
	}
	testutils.DoTestDelivery(t, q, "sender@example.org", rcpts)
	// quiescence: no metadata file left
	deadline := time.Now().Add(5 * time.Second)
	for {
		ms, _ := filepath.Glob(filepath.Join(dir, "*.meta"))
		if len(ms) == 0 {
			break
		}
		if time.Now().After(deadline) {
			problems = append(problems, "queue did not become idle within 5s")
			break
		}
		time.Sleep(2 * time.Millisecond)
	}
	q.Close()
	left, _ := os.ReadDir(dir)
	if len(left) != 0 && len(problems) == 0 {
		problems = append(problems, fmt.Sprintf("%d files left in the spool after quiescence", len(left)))
	}
	tgt.mu.Lock()
	defer tgt.mu.Unlock()
	problems = append(problems, tgt.violations...)
	if tgt.open != 0 {
		problems = append(problems, fmt.Sprintf("%d deliveries left open", tgt.open))
	}
	reported := map[string]int{}
	for _, m := range dsnTgt.Messages {
		if m.MailFrom != "" {
			problems = append(problems, "failure report with a non-null return path")
		}
		for _, mm := range vFinalRcpt.FindAllStringSubmatch(string(m.Body), -1) {
			reported[strings.TrimSpace(mm[1])]++
		}
	}
	for _, r := range rcpts {
		if tgt.committed[r]+reported[r] != 1 {
			problems = append(problems, fmt.Sprintf("recipient %s: committed %d times, named in %d failure reports (attempt outcomes %v)", r, tgt.committed[r], reported[r], tgt.attempts[r]))
		}
		if n := len(tgt.attempts[r]); n > maxTries {
			problems = append(problems, fmt.Sprintf("recipient %s attempted %d times, max_tries %d", r, n, maxTries))
		}
	}
	return problems
}

func TestVerifReplayQueueOutcomes(t *testing.T) {
	rcpts := []string{"a@example.org", "b@example.org"}
	kinds := []vKind{vOK, vTemp, vPerm, vUnspec}
	n := 0
	check := func(partial bool, plans []vPlan, maxTries int) {
		n++
		if ps := vRun(t, partial, rcpts, plans, maxTries); len(ps) > 0 {
			t.Fatalf("REPRODUCED: partial=%v max_tries=%d plans=%v: %s", partial, maxTries, plans, strings.Join(ps, "; "))
		}
	}
	// one faulty attempt, then success
	for _, partial := range []bool{false, true} {
		for _, sk := range kinds[1:] {
			check(partial, []vPlan{{start: sk}}, 3)
		}
		for _, ra := range kinds {
			for _, rb := range kinds {
				for _, ck := range kinds {
					if partial {
						for _, sa := range kinds {
							for _, sb := range []vKind{vOK, vPerm, vTemp} {
								check(true, []vPlan{{rcpt: map[string]vKind{rcpts[0]: ra, rcpts[1]: rb}, status: map[string]vKind{rcpts[0]: sa, rcpts[1]: sb}, commit: ck}}, 3)
							}
						}
					} else {
						for _, bk := range kinds {
							check(false, []vPlan{{rcpt: map[string]vKind{rcpts[0]: ra, rcpts[1]: rb}, body: bk, commit: ck}}, 3)
						}
					}
				}
			}
		}
	}
	// persistent temporary failures: the attempt bound
	for _, partial := range []bool{false, true} {
		tmp := vPlan{rcpt: map[string]vKind{rcpts[0]: vTemp}, status: map[string]vKind{rcpts[1]: vTemp}, body: vTemp}
		check(partial, []vPlan{tmp, tmp, tmp, tmp, tmp, tmp}, 3)
		check(partial, []vPlan{{commit: vTemp}, {commit: vUnspec}, {commit: vTemp}, {commit: vTemp}}, 2)
		check(partial, []vPlan{{start: vTemp}, {start: vUnspec}, {start: vTemp}, {start: vTemp}}, 3)
	}
	t.Logf("%d fault plans explored", n)
}
