package msgpipeline

import (
	"testing"

	"github.com/foxcpp/maddy/framework/module"
	"github.com/foxcpp/maddy/internal/modify"
	"github.com/foxcpp/maddy/internal/testutils"
)

// Two modifiers in one 'modify' block: the first one expands a list address to
// two recipients in different domains, the second one expands the first of
// them again. Every resulting address has to be routed by its own domain rule.
func TestDemo_ChainedExpansionRouting(t *testing.T) {
	targetCom, targetOrg := testutils.Target{InstName: "com"}, testutils.Target{InstName: "org"}
	expandList := testutils.Modifier{
		InstName: "expand_list",
		RcptTo: map[string][]string{
			"list@example.com": {"a@example.com", "b@example.org"},
		},
	}
	expandA := testutils.Modifier{
		InstName: "expand_a",
		RcptTo: map[string][]string{
			"a@example.com": {"a1@example.com", "a2@example.com"},
		},
	}
	d := MsgPipeline{
		msgpipelineCfg: msgpipelineCfg{
			globalModifiers: modify.Group{
				Modifiers: []module.Modifier{expandList, expandA},
			},
			perSource: map[string]sourceBlock{},
			defaultSource: sourceBlock{
				perRcpt: map[string]*rcptBlock{
					"example.com": {
						targets: []module.DeliveryTarget{&targetCom},
					},
					"example.org": {
						targets: []module.DeliveryTarget{&targetOrg},
					},
				},
				defaultRcpt: &rcptBlock{
					rejectErr: errDemoDefault,
				},
			},
		},
		Log: testutils.Logger(t, "msgpipeline"),
	}

	testutils.DoTestDelivery(t, &d, "sender@example.com", []string{"list@example.com"})

	if len(targetCom.Messages) != 1 {
		t.Fatalf("example.com target: want 1 message, got %d", len(targetCom.Messages))
	}
	testutils.CheckTestMessage(t, &targetCom, 0, "sender@example.com", []string{"a1@example.com", "a2@example.com"})

	if len(targetOrg.Messages) != 1 {
		t.Fatalf("example.org target: want 1 message, got %d", len(targetOrg.Messages))
	}
	testutils.CheckTestMessage(t, &targetOrg, 0, "sender@example.com", []string{"b@example.org"})
}

type demoErr string

func (e demoErr) Error() string { return string(e) }

const errDemoDefault = demoErr("default destination used")
