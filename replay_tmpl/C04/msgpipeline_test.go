package msgpipeline

import (
	"context"
	"testing"

	"github.com/emersion/go-message/textproto"
	"github.com/emersion/go-smtp"
	"github.com/foxcpp/maddy/framework/buffer"
	"github.com/foxcpp/maddy/framework/config"
	"github.com/foxcpp/maddy/framework/exterrors"
	"github.com/foxcpp/maddy/framework/module"
	"github.com/foxcpp/maddy/internal/testutils"
)

// Replay oracle for the C04 configuration obligations: every accepted configuration gives every recipient an explicit
// decision. Candidate configurations contain a destination block without deliver_to / reroute / reject; if the
// configuration loads, a message to a matching recipient must not be accepted and silently dropped.
func TestVerifReplayNoDecisionBlock(t *testing.T) {
	reject := config.Node{Name: "reject"}
	cands := [][]config.Node{
		{{Name: "destination", Args: []string{"example.org"}}, {Name: "default_destination", Children: []config.Node{reject}}},
		{{Name: "destination", Args: []string{"rcpt@example.org"}}, {Name: "default_destination", Children: []config.Node{reject}}},
	}
	for _, nodes := range cands {
		cfg, err := parseMsgPipelineRootCfg(nil, nodes)
		if err != nil {
			continue // refused at load time: fine
		}
		d := MsgPipeline{msgpipelineCfg: cfg, Log: testutils.Logger(t, "msgpipeline")}
		ctx := context.Background()
		meta := &module.MsgMetadata{ID: "c04replay", OriginalFrom: "sender@example.net", DontTraceSender: true}
		delivery, err := d.Start(ctx, meta, "sender@example.net")
		if err != nil {
			continue
		}
		if err := delivery.AddRcpt(ctx, "rcpt@example.org", smtp.RcptOptions{}); err != nil {
			delivery.Abort(ctx)
			continue
		}
		hdr := textproto.Header{}
		hdr.Add("Subject", "x")
		if err := delivery.Body(ctx, hdr, buffer.MemoryBuffer{Slice: []byte("foobar\r\n")}); err != nil {
			delivery.Abort(ctx)
			continue
		}
		if err := delivery.Commit(ctx); err != nil {
			continue
		}
		t.Fatalf("REPRODUCED: configuration %v loads; a message for rcpt@example.org is accepted and committed although its destination block has no target and no reject", nodes)
	}
}

// First declaration wins, for every spelling of a rule: two blocks whose rules normalise to the same key; the
// recipient / sender must be handled by the first one.
func TestVerifReplayFirstRuleWins(t *testing.T) {
	rej := func(code string) []config.Node { return []config.Node{{Name: "reject", Args: []string{code}}} }
	spellings := [][2]string{{"EXAMPLE.org", "example.org"}, {"example.org", "EXAMPLE.ORG"}, {"Rcpt@Example.org", "rcpt@example.org"}, {"example.org", "example.org"}}
	for _, sp := range spellings {
		// destination rules
		nodes := []config.Node{
			{Name: "destination", Args: []string{sp[0]}, Children: rej("550")},
			{Name: "destination", Args: []string{sp[1]}, Children: rej("551")},
			{Name: "default_destination", Children: rej("552")},
		}
		cfg, err := parseMsgPipelineRootCfg(nil, nodes)
		if err == nil {
			d := MsgPipeline{msgpipelineCfg: cfg, Log: testutils.Logger(t, "msgpipeline")}
			ctx := context.Background()
			meta := &module.MsgMetadata{ID: "c04replay", OriginalFrom: "sender@example.net", DontTraceSender: true}
			delivery, err := d.Start(ctx, meta, "sender@example.net")
			if err == nil {
				err = delivery.AddRcpt(ctx, "rcpt@example.org", smtp.RcptOptions{})
				delivery.Abort(ctx)
				if code := smtpCodeOf(err); code != 550 {
					t.Fatalf("REPRODUCED: destination rules %q then %q: rcpt@example.org handled with code %d, want the first block (550)", sp[0], sp[1], code)
				}
			}
		}
		// source rules
		s0, s1 := sp[0], sp[1]
		if s0 == "Rcpt@Example.org" {
			s0, s1 = "Sender@Example.org", "sender@example.org"
		}
		nodes = []config.Node{
			{Name: "source", Args: []string{s0}, Children: rej("550")},
			{Name: "source", Args: []string{s1}, Children: rej("551")},
			{Name: "default_source", Children: rej("552")},
		}
		cfg, err = parseMsgPipelineRootCfg(nil, nodes)
		if err == nil {
			d := MsgPipeline{msgpipelineCfg: cfg, Log: testutils.Logger(t, "msgpipeline")}
			ctx := context.Background()
			meta := &module.MsgMetadata{ID: "c04replay", OriginalFrom: "sender@example.org", DontTraceSender: true}
			delivery, err := d.Start(ctx, meta, "sender@example.org")
			if err == nil {
				err = delivery.AddRcpt(ctx, "rcpt@example.net", smtp.RcptOptions{})
				delivery.Abort(ctx)
			}
			if code := smtpCodeOf(err); code != 550 {
				t.Fatalf("REPRODUCED: source rules %q then %q: sender@example.org handled with code %d, want the first block (550)", s0, s1, code)
			}
		}
	}
}

func smtpCodeOf(err error) int {
	for err != nil {
		if se, ok := err.(*exterrors.SMTPError); ok {
			return se.Code
		}
		u, ok := err.(interface{ Unwrap() error })
		if !ok {
			return -1
		}
		err = u.Unwrap()
	}
	return 0
}
