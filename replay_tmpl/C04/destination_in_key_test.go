package msgpipeline

import (
	"errors"
	"testing"

	"github.com/foxcpp/maddy/framework/module"
	"github.com/foxcpp/maddy/internal/testutils"
)

// Routing precedence is table match -> full address -> domain -> default and
// matching must be insensitive to case, Unicode normalization form and
// A-label/U-label spelling. A recipient listed in a destination_in table must
// therefore be handed to the table block (and only to it) regardless of how
// the client spelled the address in RCPT TO.
func TestZZDemo_DestInMatchIsSpellingInsensitive(t *testing.T) {
	for _, rcpt := range []string{
		"specific@example.com",         // canonical spelling (control)
		"SpeCific@EXAMPLE.com",         // letter case
		"specific@\u00e9.example.com",  // canonical, NFC (control)
		"specific@E\u0301.example.com", // NFD + case
		"specific@xn--9ca.example.com", // A-label spelling of \u00e9.example.com
		"sp\u00e9cific@example.com",    // NFC local part (control)
		"spe\u0301cific@example.com",   // NFD local part
	} {
		rcpt := rcpt
		t.Run(rcpt, func(t *testing.T) {
			tblTarget, domTarget := testutils.Target{InstName: "tblTarget"}, testutils.Target{InstName: "domTarget"}
			d := MsgPipeline{
				msgpipelineCfg: msgpipelineCfg{
					perSource: map[string]sourceBlock{},
					defaultSource: sourceBlock{
						rcptIn: []rcptIn{
							{
								t: testutils.Table{
									M: map[string]string{
										"specific@example.com":        "",
										"specific@\u00e9.example.com": "",
										"sp\u00e9cific@example.com":   "",
									},
								},
								block: &rcptBlock{
									targets: []module.DeliveryTarget{&tblTarget},
								},
							},
						},
						perRcpt: map[string]*rcptBlock{
							"example.com": {
								targets: []module.DeliveryTarget{&domTarget},
							},
							"\u00e9.example.com": {
								targets: []module.DeliveryTarget{&domTarget},
							},
						},
						defaultRcpt: &rcptBlock{
							rejectErr: errors.New("defaultRcpt block used"),
						},
					},
				},
				Log: testutils.Logger(t, "msgpipeline"),
			}

			testutils.DoTestDelivery(t, &d, "sender@example.com", []string{rcpt})

			if len(domTarget.Messages) != 0 {
				t.Errorf("recipient %q listed in destination_in table was routed via the domain rule", rcpt)
			}
			if len(tblTarget.Messages) != 1 {
				t.Fatalf("wrong amount of messages received for tblTarget, want %d, got %d", 1, len(tblTarget.Messages))
			}
			testutils.CheckTestMessage(t, &tblTarget, 0, "sender@example.com", []string{rcpt})
		})
	}
}
