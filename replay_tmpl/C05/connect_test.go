// Replay oracle (injected with go test -overlay): the demonstration a sub-agent wrote for the seeded change
// C05-shared-tlsconfig-skipverify-sticks; it passes on the unchanged tree and fails when the property is broken that way.
package remote

import (
	"net"
	"testing"

	"github.com/foxcpp/go-mockdns"
	"github.com/foxcpp/maddy/framework/module"
	"github.com/foxcpp/maddy/internal/testutils"
)

// The MX offers STARTTLS but its certificate is not trusted by the client
// configuration. local_policy requires an authenticated TLS connection, so the
// message must be deferred - on the first attempt and on every retry.
func TestDemo_C05_RetryAfterVerifyFailure(t *testing.T) {
	_, be, srv := testutils.SMTPServerSTARTTLS(t, "127.0.0.1:"+smtpPort)
	defer srv.Close()
	defer testutils.CheckSMTPConnLeak(t, srv)
	zones := map[string]mockdns.Zone{
		"example.invalid.": {
			MX: []net.MX{{Host: "mx.example.invalid.", Pref: 10}},
		},
		"mx.example.invalid.": {
			A: []string{"127.0.0.1"},
		},
	}

	// tlsConfig (testTarget default) is not configured to trust the server cert.
	tgt := testTarget(t, zones, nil, []module.MXAuthPolicy{
		&localPolicy{minTLSLevel: module.TLSAuthenticated},
	})
	defer tgt.Close()

	for attempt := 1; attempt <= 3; attempt++ {
		_, err := testutils.DoTestDeliveryErr(t, tgt, "test@example.com", []string{"test@example.invalid"})
		if err == nil {
			t.Errorf("attempt %d: message accepted for delivery over a connection that is not authenticated", attempt)
		}
	}

	if be.MailFromCounter != 0 {
		t.Errorf("MAIL FROM issued %d time(s) to a server failing authentication", be.MailFromCounter)
	}
	if len(be.Messages) != 0 {
		t.Fatalf("%d message(s) transmitted over an unauthenticated TLS connection", len(be.Messages))
	}
}

// Same, but within a single message: two MX candidates, both with an
// untrusted certificate. Neither satisfies min_tls_level=authenticated.
func TestDemo_C05_SecondMXAfterVerifyFailure(t *testing.T) {
	_, be, srv := testutils.SMTPServerSTARTTLS(t, "127.0.0.1:"+smtpPort)
	defer srv.Close()
	defer testutils.CheckSMTPConnLeak(t, srv)
	zones := map[string]mockdns.Zone{
		"example.invalid.": {
			MX: []net.MX{
				{Host: "mx1.example.invalid.", Pref: 10},
				{Host: "mx2.example.invalid.", Pref: 20},
			},
		},
		"mx1.example.invalid.": {
			A: []string{"127.0.0.1"},
		},
		"mx2.example.invalid.": {
			A: []string{"127.0.0.1"},
		},
	}

	tgt := testTarget(t, zones, nil, []module.MXAuthPolicy{
		&localPolicy{minTLSLevel: module.TLSAuthenticated},
	})
	defer tgt.Close()

	if _, err := testutils.DoTestDeliveryErr(t, tgt, "test@example.com", []string{"test@example.invalid"}); err == nil {
		t.Error("message accepted for delivery although no MX could be authenticated")
	}
	if len(be.Messages) != 0 {
		t.Fatalf("%d message(s) transmitted over an unauthenticated TLS connection", len(be.Messages))
	}
}
