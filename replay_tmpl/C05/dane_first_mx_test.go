package remote

import (
	"net"
	"testing"

	"github.com/foxcpp/go-mockdns"
	"github.com/foxcpp/maddy/framework/module"
	"github.com/foxcpp/maddy/internal/testutils"
)

// Demonstration for property C05 (outbound mail is only sent over connections
// that satisfy the security policy).
//
// Policies in force: dane + local_policy { min_tls_level encrypted } (the
// default maddy configuration).
//
// Two MX candidates:
//   - mx1 (preferred) publishes no TLSA records and does not offer STARTTLS,
//     it passes DANE (nothing to check) but is refused by local_policy, so
//     the next MX is tried.
//   - mx2 (backup) publishes a DNSSEC-signed, usable DANE-EE TLSA record.
//     The server answering for mx2 presents a certificate that does NOT match
//     that record (impersonation). RFC 7672 requires the connection to be
//     authenticated using the TLSA record, therefore the message must not be
//     sent there either.
//
// Expected: delivery fails (deferred), no MAIL FROM is ever issued.
func TestDemo_DANE_SecondMX_UsesItsOwnTLSA(t *testing.T) {
	be1, srv1 := testutils.SMTPServer(t, "127.0.0.1:"+smtpPort)
	defer srv1.Close()
	defer testutils.CheckSMTPConnLeak(t, srv1)

	clientCfg, be2, srv2 := testutils.SMTPServerSTARTTLS(t, "127.0.0.2:"+smtpPort)
	defer srv2.Close()
	defer testutils.CheckSMTPConnLeak(t, srv2)

	zones := map[string]mockdns.Zone{
		"example.invalid.": {
			AD: true,
			MX: []net.MX{
				{Host: "mx1.example.invalid.", Pref: 10},
				{Host: "mx2.example.invalid.", Pref: 20},
			},
		},
		"mx1.example.invalid.": {
			AD: true,
			A:  []string{"127.0.0.1"},
		},
		"mx2.example.invalid.": {
			AD: true,
			A:  []string{"127.0.0.2"},
		},
		"_25._tcp.mx2.example.invalid.": {
			AD: true,
			// Does not match the key of the certificate used by srv2.
			Misc: tlsaRecord(
				"_25._tcp.mx2.example.invalid.",
				3, 1, 1, "ffb5cb4d02f996f6385debe9a8952f1af1f4aec7eae0f37c2cd6d0d8ee8391cf"),
		},
	}
	dnsSrv, tgt := targetWithExtResolver(t, zones)
	defer dnsSrv.Close()
	defer tgt.Close()
	tgt.tlsConfig = clientCfg
	tgt.policies = append(tgt.policies,
		&localPolicy{
			minTLSLevel: module.TLSEncrypted,
		},
	)

	_, err := testutils.DoTestDeliveryErr(t, tgt, "test@example.com", []string{"test@example.invalid"})
	if err == nil {
		t.Error("message was relayed although no MX satisfies the policies in force")
	}
	if be1.MailFromCounter != 0 {
		t.Error("MAIL FROM issued to mx1 over plaintext (local_policy requires TLS)")
	}
	if be2.MailFromCounter != 0 {
		t.Error("MAIL FROM issued to mx2 over a connection that is not authenticated by its TLSA records")
	}
	if len(be1.Messages) != 0 || len(be2.Messages) != 0 {
		t.Error("message content was transmitted over a connection that does not satisfy the policies")
	}
}
