package remote

import (
	"context"
	"errors"
	"net"
	"testing"

	"github.com/emersion/go-smtp"
	"github.com/foxcpp/go-mockdns"
	"github.com/foxcpp/go-mtasts"
	"github.com/foxcpp/maddy/framework/module"
	"github.com/foxcpp/maddy/internal/testutils"
)

// Two MX candidates. The preferred one (mx1) is listed in the (testing-mode)
// MTA-STS policy but is unreachable. The second one (mx2) is NOT covered by
// the MTA-STS policy, that is, its MX record is not authenticated at all.
//
// The security level established while vetting mx1 must not carry over to
// mx2: with min_mx_level=mtasts (or REQUIRETLS) the message must not be handed
// to mx2.

func demoZones() map[string]mockdns.Zone {
	return map[string]mockdns.Zone{
		"example.invalid.": {
			MX: []net.MX{
				{Host: "mx1.example.invalid.", Pref: 5},
				{Host: "mx2.example.invalid.", Pref: 10},
			},
		},
		// Nothing is listening here (connection refused).
		"mx1.example.invalid.": {
			A: []string{"127.0.0.1"},
		},
		"mx2.example.invalid.": {
			A: []string{"127.0.0.2"},
		},
	}
}

func demoMTASTS(_ context.Context, domain string) (*mtasts.Policy, error) {
	if domain != "example.invalid" {
		return nil, errors.New("Wrong domain in lookup")
	}
	return &mtasts.Policy{
		Mode: mtasts.ModeTesting,
		MX:   []string{"mx1.example.invalid"}, // mx2 is not listed!
	}, nil
}

func TestDemo_MXLevelNotCarriedOver_LocalPolicy(t *testing.T) {
	clientCfg, be2, srv2 := testutils.SMTPServerSTARTTLS(t, "127.0.0.2:"+smtpPort)
	defer srv2.Close()
	defer testutils.CheckSMTPConnLeak(t, srv2)

	zones := demoZones()
	tgt := testTarget(t, zones, nil, []module.MXAuthPolicy{
		testSTSPolicy(t, zones, demoMTASTS),
		&localPolicy{minMXLevel: module.MX_MTASTS},
	})
	tgt.tlsConfig = clientCfg
	defer tgt.Close()

	_, err := testutils.DoTestDeliveryErr(t, tgt, "test@example.com", []string{"test@example.invalid"})
	if err == nil {
		t.Error("Expected an error (mx1 is down, mx2 is not authenticated), got none")
	}
	if be2.MailFromCounter != 0 {
		t.Fatal("MAIL FROM issued for MX failing authentication (min_mx_level mtasts)")
	}
	if len(be2.Messages) != 0 {
		t.Fatal("message delivered to MX failing authentication")
	}
}

func TestDemo_MXLevelNotCarriedOver_REQUIRETLS(t *testing.T) {
	clientCfg, be2, srv2 := testutils.SMTPServerSTARTTLS(t, "127.0.0.2:"+smtpPort)
	srv2.EnableREQUIRETLS = true
	defer srv2.Close()
	defer testutils.CheckSMTPConnLeak(t, srv2)

	zones := demoZones()
	tgt := testTarget(t, zones, nil, []module.MXAuthPolicy{
		testSTSPolicy(t, zones, demoMTASTS),
	})
	tgt.tlsConfig = clientCfg
	defer tgt.Close()

	_, err := testutils.DoTestDeliveryErrMeta(t, tgt, "test@example.com", []string{"test@example.invalid"}, &module.MsgMetadata{
		OriginalFrom: "test@example.com",
		SMTPOpts: smtp.MailOptions{
			RequireTLS: true,
		},
	})
	if err == nil {
		t.Error("Expected an error (REQUIRETLS needs an authenticated MX), got none")
	}
	if be2.MailFromCounter != 0 {
		t.Fatal("MAIL FROM issued for MX failing authentication (REQUIRETLS)")
	}
	if len(be2.Messages) != 0 {
		t.Fatal("message delivered to MX failing authentication")
	}
}
