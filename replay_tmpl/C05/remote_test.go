package remote

// Replay oracle for C05 (injected with go test -overlay): histories of messages to one domain sharing the connection
// cache, against scripted plaintext / STARTTLS servers; a message must be transmitted only when the same message is
// accepted on a fresh connection (i.e. the policies in force for it are satisfied by the connection actually used).

import (
	"context"
	"net"
	"strings"
	"testing"

	"github.com/emersion/go-smtp"
	"github.com/foxcpp/go-mockdns"
	"github.com/foxcpp/go-mtasts"
	"github.com/foxcpp/maddy/framework/config"
	"github.com/foxcpp/maddy/framework/module"
	"github.com/foxcpp/maddy/internal/limits"
	"github.com/foxcpp/maddy/internal/testutils"
)

func vrTarget(t *testing.T, zones map[string]mockdns.Zone, minTLS module.TLSLevel) *Target {
	tgt := testTarget(t, zones, nil, []module.MXAuthPolicy{&localPolicy{minTLSLevel: minTLS}})
	tgt.allowSecOverride = true
	tgt.connReuseLimit = 10
	return tgt
}

// vrSend delivers one message; returns whether the body stage succeeded.
func vrSend(t *testing.T, tgt *Target, meta *module.MsgMetadata, rcpts ...string) bool {
	_, err := testutils.DoTestDeliveryErrMeta(t, tgt, "sender@example.com", rcpts, meta)
	return err == nil
}

func TestVerifReplayPolicyOnReuse(t *testing.T) {
	zones := map[string]mockdns.Zone{
		"example.invalid.":    {MX: []net.MX{{Host: "mx.example.invalid.", Pref: 10}}},
		"mx.example.invalid.": {A: []string{"127.0.0.1"}},
	}
	bad := 0

	// 1. pool reuse: a plaintext connection opened for a message with the TLS-Required: No override must not carry
	// a later message that requires encryption.
	{
		be, srv := testutils.SMTPServer(t, "127.0.0.1:"+smtpPort)
		fresh := vrTarget(t, zones, module.TLSEncrypted)
		okFresh := vrSend(t, fresh, &module.MsgMetadata{ID: "fresh"}, "a@example.invalid")
		fresh.Close()
		tgt := vrTarget(t, zones, module.TLSEncrypted)
		okOverride := vrSend(t, tgt, &module.MsgMetadata{ID: "override", TLSRequireOverride: true}, "a@example.invalid")
		okAfter := vrSend(t, tgt, &module.MsgMetadata{ID: "ordinary"}, "a@example.invalid")
		tgt.Close()
		if okAfter && !okFresh {
			bad++
			t.Logf("REPRODUCED: min_tls_level encrypted, plaintext server: ordinary message refused on a fresh connection (%v) but transmitted over the connection pooled by a TLS-Required: No message (override delivered=%v); server got %d messages", okFresh, okOverride, len(be.Messages))
		}
		srv.Close()
	}

	// 2. relaxed REQUIRETLS: the flag of the message must survive the first domain (server with authenticated TLS and
	// an MTA-STS-matched MX, but without the REQUIRETLS extension).
	{
		clientCfg, _, srv := testutils.SMTPServerSTARTTLS(t, "127.0.0.1:"+smtpPort)
		mtastsGet := func(_ context.Context, domain string) (*mtasts.Policy, error) {
			return &mtasts.Policy{Mode: mtasts.ModeTesting, MX: []string{"mx.example.invalid"}}, nil
		}
		tgt := testTarget(t, zones, nil, []module.MXAuthPolicy{testSTSPolicy(t, zones, mtastsGet)})
		tgt.tlsConfig = clientCfg
		tgt.relaxedREQUIRETLS = true
		meta := &module.MsgMetadata{ID: "requiretls", SMTPOpts: smtp.MailOptions{RequireTLS: true}}
		delivery, err := tgt.Start(context.Background(), meta, "sender@example.com")
		if err == nil {
			rerr := delivery.AddRcpt(context.Background(), "a@example.invalid", smtp.RcptOptions{})
			if !meta.SMTPOpts.RequireTLS {
				bad++
				t.Logf("REPRODUCED: relaxed REQUIRETLS: the REQUIRETLS flag of the message was cleared while handling the first recipient domain (AddRcpt: %v); later domains of this message are no longer held to it", rerr)
			}
			delivery.Abort(context.Background())
		}
		tgt.Close()
		srv.Close()
	}

	// 3. destination permit: a failing MAIL FROM must not leak the per-destination permit.
	{
		be, srv := testutils.SMTPServer(t, "127.0.0.1:"+smtpPort)
		be.MailErr = &smtp.SMTPError{Code: 451, EnhancedCode: smtp.EnhancedCode{4, 0, 0}, Message: "later"}
		tgt := testTarget(t, zones, nil, nil)
		lim := &limits.Group{}
		if err := vrInitLimits(lim); err != nil {
			t.Fatal(err)
		}
		tgt.limits = lim
		for i := 0; i < 2; i++ {
			delivery, err := tgt.Start(context.Background(), &module.MsgMetadata{ID: "permit"}, "sender@example.com")
			if err != nil {
				t.Fatal(err)
			}
			err = delivery.AddRcpt(context.Background(), "a@example.invalid", smtp.RcptOptions{})
			if i == 1 && err != nil && strings.Contains(err.Error(), "deadline") {
				bad++
				t.Logf("REPRODUCED: destination concurrency 1: after one failed MAIL FROM the next transaction to the domain cannot get the permit: %v", err)
			}
			delivery.Abort(context.Background())
		}
		tgt.Close()
		srv.Close()
	}
	if bad > 0 {
		t.Fatalf("%d scenarios violate the outbound policy / permit discipline", bad)
	}
}

func vrInitLimits(g *limits.Group) error {
	return g.Init(config.NewMap(nil, config.Node{Children: []config.Node{{Name: "destination", Args: []string{"concurrency", "1"}}}}))
}
