package remote

import (
	"net"
	"strconv"
	"sync"
	"testing"

	"github.com/foxcpp/go-mockdns"
	"github.com/foxcpp/maddy/framework/dns"
	"github.com/foxcpp/maddy/framework/module"
	"github.com/foxcpp/maddy/internal/testutils"
	miekgdns "github.com/miekg/dns"
)

// demoFlakyDNS imitates two resolvers listed in resolv.conf that share a port:
// the first query for the MX RRset (sent to the local validating resolver) is
// answered with SERVFAIL, the retry (sent to the next, non-local server) gets
// an answer with the AD bit set - something anybody on the path to a remote
// resolver can forge.
type demoFlakyDNS struct {
	mu        sync.Mutex
	mxQueries int
}

func (s *demoFlakyDNS) ServeDNS(w miekgdns.ResponseWriter, m *miekgdns.Msg) {
	q := m.Question[0]

	reply := new(miekgdns.Msg)
	reply.SetReply(m)
	reply.RecursionAvailable = true

	if q.Qtype == miekgdns.TypeMX && q.Name == "example.invalid." {
		s.mu.Lock()
		s.mxQueries++
		n := s.mxQueries
		s.mu.Unlock()

		if n == 1 {
			reply.Rcode = miekgdns.RcodeServerFailure
		} else {
			reply.AuthenticatedData = true
			reply.Answer = append(reply.Answer, &miekgdns.MX{
				Hdr: miekgdns.RR_Header{
					Name:   q.Name,
					Rrtype: miekgdns.TypeMX,
					Class:  miekgdns.ClassINET,
					Ttl:    9999,
				},
				Preference: 10,
				Mx:         "mx.example.invalid.",
			})
		}
	}

	_ = w.WriteMsg(reply)
}

// demoNonLoopbackServer returns an address of this host that is not a loopback
// one (what a second "nameserver" line would look like); if the host has none,
// a host name is used - it is not recognised as loopback either.
func demoNonLoopbackServer() string {
	addrs, err := net.InterfaceAddrs()
	if err == nil {
		for _, a := range addrs {
			ipNet, ok := a.(*net.IPNet)
			if !ok {
				continue
			}
			if ip4 := ipNet.IP.To4(); ip4 != nil && !ip4.IsLoopback() {
				return ip4.String()
			}
		}
	}
	return "localhost"
}

func TestDemo_C05_DNSSEC_FallbackResolverAD(t *testing.T) {
	be, srv := testutils.SMTPServer(t, "127.0.0.1:"+smtpPort)
	defer srv.Close()
	defer testutils.CheckSMTPConnLeak(t, srv)

	// Used for A lookups when dialing the MX only.
	zones := map[string]mockdns.Zone{
		"example.invalid.": {
			MX: []net.MX{{Host: "mx.example.invalid.", Pref: 10}},
		},
		"mx.example.invalid.": {
			A: []string{"127.0.0.1"},
		},
	}

	pconn, err := net.ListenPacket("udp4", ":0")
	if err != nil {
		t.Fatal(err)
	}
	flaky := &demoFlakyDNS{}
	dnsSrv := &miekgdns.Server{PacketConn: pconn, Handler: flaky}
	go dnsSrv.ActivateAndServe() //nolint:errcheck
	defer pconn.Close()

	extResolver, err := dns.NewExtResolver()
	if err != nil {
		t.Fatal(err)
	}
	second := demoNonLoopbackServer()
	t.Log("second resolver:", second)
	extResolver.Cfg.Servers = []string{"127.0.0.1", second}
	extResolver.Cfg.Port = strconv.Itoa(pconn.LocalAddr().(*net.UDPAddr).Port)

	tgt := testTarget(t, zones, extResolver, []module.MXAuthPolicy{
		&dnssecPolicy{},
		&localPolicy{minMXLevel: module.MX_DNSSEC},
	})
	defer tgt.Close()

	_, err = testutils.DoTestDeliveryErr(t, tgt, "test@example.com", []string{"test@example.invalid"})

	flaky.mu.Lock()
	mxQueries := flaky.mxQueries
	flaky.mu.Unlock()
	if mxQueries < 2 {
		t.Fatalf("test is vacuous: the fallback resolver was not asked (MX queries: %d, err: %v)", mxQueries, err)
	}

	if err == nil {
		t.Error("message relayed although min_mx_level dnssec is required and the MX RRset was " +
			"only 'authenticated' by the AD bit of a non-local resolver")
	}
	if be.MailFromCounter != 0 {
		t.Error("MAIL FROM issued for server failing authentication")
	}
}
