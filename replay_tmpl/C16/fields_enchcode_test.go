package queue

import (
	"testing"

	"github.com/foxcpp/maddy/framework/exterrors"
)

// C16: the reply persisted for a failure report must have a basic code and an
// enhanced code of the same class, and the class must agree with the retry
// decision (IsTemporaryOrUnspec).
//
// An annotated error that does not specify an enhanced code (only Code 450,
// as e.g. check.command does) wraps a permanent, fully annotated error
// produced deeper in the pipeline.
func TestZZDemoC16NestedSMTPErrNoEnhancedCode(t *testing.T) {
	inner := &exterrors.SMTPError{
		Code:         550,
		EnhancedCode: exterrors.EnhancedCode{5, 1, 1},
		Message:      "No such user",
	}
	outer := &exterrors.SMTPError{
		Code:    450,
		Message: "Internal server error",
		Err:     inner,
	}

	for _, err := range []error{
		outer,
		exterrors.WithFields(outer, map[string]interface{}{"remote_server": "mx.example.org"}),
	} {
		res := toSMTPErr(err)
		temporary := exterrors.IsTemporaryOrUnspec(err)

		if res.Code/100 != res.EnhancedCode[0] {
			t.Errorf("incoherent reply: %d %d.%d.%d", res.Code,
				res.EnhancedCode[0], res.EnhancedCode[1], res.EnhancedCode[2])
		}
		if temporary != (res.Code/100 == 4) {
			t.Errorf("retry decision (temporary=%v) disagrees with code %d", temporary, res.Code)
		}
		if temporary != (res.EnhancedCode[0] == 4) {
			t.Errorf("retry decision (temporary=%v) disagrees with enhanced code %d.%d.%d", temporary,
				res.EnhancedCode[0], res.EnhancedCode[1], res.EnhancedCode[2])
		}
	}
}
