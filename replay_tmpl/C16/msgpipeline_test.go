package msgpipeline

import (
	"testing"

	"github.com/foxcpp/maddy/framework/config"
)

// Replay for msgpipeline.parseRejectDirective: with zero or one argument maddy computes the enhanced code,
// which must have the class of the basic code.
func TestVerifReplayRejectDirective(t *testing.T) {
	for _, args := range [][]string{{}, {"554"}, {"550"}, {"450"}, {"421"}, {"451"}} {
		e, err := parseRejectDirective(config.Node{Name: "reject", Args: args})
		if err != nil {
			continue
		}
		ec := e.EnhancedCode
		if !(ec[0] == 0 && ec[1] == 0 && ec[2] == 0) && ec[0] != e.Code/100 {
			t.Fatalf("REPRODUCED: reject %v gives basic code %d with enhanced code %d.%d.%d", args, e.Code, ec[0], ec[1], ec[2])
		}
		if e.Code/100 != 4 && e.Code/100 != 5 {
			t.Fatalf("REPRODUCED: reject %v gives basic code %d", args, e.Code)
		}
	}
}
