// Replay oracle (injected with go test -overlay): the demonstration a sub-agent wrote for the seeded change
// C16-no-usable-mx-wrong-err; it passes on the unchanged tree and fails when the property is broken that way.
package remote

import (
	"net"
	"testing"

	"github.com/foxcpp/go-mockdns"
	"github.com/foxcpp/maddy/framework/exterrors"
	"github.com/foxcpp/maddy/internal/testutils"
)

// All MXs of the recipient domain are unreachable (connection refused), which
// is a temporary failure: the queue will retry it. The error reported for the
// recipient must carry a basic code and an enhanced code of the same class,
// and that class must agree with the retry classification.
func TestZZDemo_AllMXDown_CodeClassesAgree(t *testing.T) {
	zones := map[string]mockdns.Zone{
		"example.invalid.": {
			MX: []net.MX{
				{Host: "mx1.example.invalid.", Pref: 20},
				{Host: "mx2.example.invalid.", Pref: 10},
			},
		},
		"mx1.example.invalid.": {
			A: []string{"127.0.0.1"},
		},
		"mx2.example.invalid.": {
			A: []string{"127.0.0.2"},
		},
	}

	tgt := testTarget(t, zones, nil, nil)
	defer tgt.Close()

	_, err := testutils.DoTestDeliveryErr(t, tgt, "test@example.com", []string{"test@example.invalid"})
	if err == nil {
		t.Fatal("Expected an error, got none")
	}

	fields := exterrors.Fields(err)
	code, ok := fields["smtp_code"].(int)
	if !ok {
		t.Fatalf("no smtp_code in the error: %v", fields)
	}
	enchCode, ok := fields["smtp_enchcode"].(exterrors.EnhancedCode)
	if !ok {
		t.Fatalf("no smtp_enchcode in the error: %v", fields)
	}
	t.Logf("reported: %d %d.%d.%d, temporary=%v", code, enchCode[0], enchCode[1], enchCode[2],
		exterrors.IsTemporaryOrUnspec(err))

	if code/100 != enchCode[0] {
		t.Errorf("basic code %d and enhanced code %d.%d.%d are of different classes",
			code, enchCode[0], enchCode[1], enchCode[2])
	}

	wantClass := 5
	if exterrors.IsTemporaryOrUnspec(err) {
		wantClass = 4
	}
	if code/100 != wantClass {
		t.Errorf("basic code %d disagrees with retry classification (want %dyz)", code, wantClass)
	}
	if enchCode[0] != wantClass {
		t.Errorf("enhanced code %d.%d.%d disagrees with retry classification (want %d.x.x)",
			enchCode[0], enchCode[1], enchCode[2], wantClass)
	}
}
