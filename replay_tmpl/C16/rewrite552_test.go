package smtpconn

import (
	"context"
	"testing"

	"github.com/emersion/go-smtp"
	"github.com/foxcpp/maddy/framework/config"
	"github.com/foxcpp/maddy/framework/exterrors"
	"github.com/foxcpp/maddy/internal/testutils"
)

// checkCoherent asserts the C16 coherence of an error produced by smtpconn:
// basic code class == enhanced code class == class implied by retry behaviour.
func checkCoherent(t *testing.T, err error) {
	t.Helper()

	if err == nil {
		t.Fatal("expected an error")
	}

	fields := exterrors.Fields(err)
	code, ok := fields["smtp_code"].(int)
	if !ok {
		t.Fatalf("no smtp_code in fields: %v", fields)
	}
	ench, ok := fields["smtp_enchcode"].(exterrors.EnhancedCode)
	if !ok {
		t.Fatalf("no smtp_enchcode in fields: %v", fields)
	}

	if code/100 != ench[0] {
		t.Errorf("incoherent reply: basic code %d with enhanced code %s", code, ench.FormatLog())
	}

	temp := exterrors.IsTemporaryOrUnspec(err)
	if temp && (code/100 != 4 || ench[0] != 4) {
		t.Errorf("failure is retried (temporary) but is reported as %d %s", code, ench.FormatLog())
	}
	if !temp && (code/100 != 5 || ench[0] != 5) {
		t.Errorf("failure is not retried (permanent) but is reported as %d %s", code, ench.FormatLog())
	}
}

// Direct: the downstream reply 552 5.3.4 is rewritten to a temporary failure
// (RFC 5321 Section 4.5.3.1.10), both codes should move to class 4.
func TestDemoC16_552RewriteDirect(t *testing.T) {
	c := New()
	c.Log = testutils.Logger(t, "smtpconn")

	err := c.wrapClientErr(&smtp.SMTPError{
		Code:         552,
		EnhancedCode: smtp.EnhancedCode{5, 3, 4},
		Message:      "Too many recipients",
	}, "mx.example.org")
	checkCoherent(t, err)
	testutils.CheckSMTPErr(t, err, 452, exterrors.EnhancedCode{4, 3, 4}, "Too many recipients")

	// Other codes are passed as is.
	err = c.wrapClientErr(&smtp.SMTPError{
		Code:         550,
		EnhancedCode: smtp.EnhancedCode{5, 1, 1},
		Message:      "No such user",
	}, "mx.example.org")
	checkCoherent(t, err)
	err = c.wrapClientErr(&smtp.SMTPError{
		Code:         451,
		EnhancedCode: smtp.EnhancedCode{4, 3, 0},
		Message:      "Try later",
	}, "mx.example.org")
	checkCoherent(t, err)
}

// End-to-end: a real downstream server answers RCPT TO with 552.
func TestDemoC16_552RewriteRcpt(t *testing.T) {
	be, srv := testutils.SMTPServer(t, "127.0.0.1:"+testPort)
	defer srv.Close()
	defer testutils.CheckSMTPConnLeak(t, srv)

	be.RcptErr = map[string]error{
		"full@example.invalid": &smtp.SMTPError{
			Code:         552,
			EnhancedCode: smtp.EnhancedCode{5, 2, 2},
			Message:      "Mailbox full",
		},
	}

	c := New()
	c.Log = testutils.Logger(t, "smtpconn")
	if _, err := c.Connect(context.Background(), config.Endpoint{
		Scheme: "tcp",
		Host:   "127.0.0.1",
		Port:   testPort,
	}, false, nil); err != nil {
		t.Fatal(err)
	}
	defer c.Close()

	if err := c.Mail(context.Background(), "sender@example.org", smtp.MailOptions{}); err != nil {
		t.Fatal(err)
	}
	err := c.Rcpt(context.Background(), "full@example.invalid", smtp.RcptOptions{})
	checkCoherent(t, err)
	testutils.CheckSMTPErr(t, err, 452, exterrors.EnhancedCode{4, 2, 2}, "Mailbox full")
}
