package exterrors

// Replay for C16 obligations on the exterrors helpers: concrete search over error values built from the
// wrapping primitives; the clause is evaluated with the spec functions bound to the real library
// (isTemp(err) := errors.As(err, *TemporaryErr) && t.Temporary()).

import (
	"errors"
	"fmt"
	"testing"
)

func verifErrUniverse() []error {
	base := errors.New("x")
	var out []error
	out = append(out, nil, base)
	for _, t := range []bool{true, false} {
		out = append(out, WithTemporary(base, t))
		out = append(out, WithFields(WithTemporary(base, t), map[string]interface{}{"a": 1}))
		out = append(out, fmt.Errorf("wrap: %w", WithTemporary(base, t)))
		out = append(out, WithTemporary(WithTemporary(base, !t), t))
	}
	for _, c := range []int{421, 451, 550, 554, 250, 0} {
		out = append(out, &SMTPError{Code: c, Err: base})
		out = append(out, &SMTPError{Code: c, Err: WithTemporary(base, c/100 != 4)})
	}
	return out
}

func verifIsTemp(err error) bool {
	var t TemporaryErr
	if errors.As(err, &t) {
		return t.Temporary()
	}
	return false
}

func TestVerifReplayEnchCode(t *testing.T) {
	for _, e := range verifErrUniverse() {
		for _, code := range []EnhancedCode{{0, 0, 0}, {5, 7, 1}, {4, 4, 0}, {0, 1, 2}} {
			got := SMTPEnchCode(e, code)
			want := 5
			if verifIsTemp(e) {
				want = 4
			}
			if got[0] != want || got[1] != code[1] || got[2] != code[2] {
				t.Fatalf("REPRODUCED: SMTPEnchCode(%#v, %v) = %v, class must be %d and subject/detail preserved", e, code, got, want)
			}
		}
	}
}

func TestVerifReplayCode(t *testing.T) {
	for _, e := range verifErrUniverse() {
		got := SMTPCode(e, 451, 554)
		want := 554
		if verifIsTemp(e) {
			want = 451
		}
		if got != want {
			t.Fatalf("REPRODUCED: SMTPCode(%#v, 451, 554) = %d, want %d", e, got, want)
		}
	}
}

func TestVerifReplayIsTemporary(t *testing.T) {
	for _, e := range verifErrUniverse() {
		var tt TemporaryErr
		has := errors.As(e, &tt)
		if IsTemporary(e) != (has && tt.Temporary()) {
			t.Fatalf("REPRODUCED: IsTemporary(%#v) = %v", e, IsTemporary(e))
		}
		if IsTemporaryOrUnspec(e) != (!has || tt.Temporary()) {
			t.Fatalf("REPRODUCED: IsTemporaryOrUnspec(%#v) = %v", e, IsTemporaryOrUnspec(e))
		}
	}
	for _, c := range []int{199, 250, 400, 421, 499, 500, 554} {
		if (&SMTPError{Code: c}).Temporary() != (c/100 == 4) {
			t.Fatalf("REPRODUCED: (&SMTPError{Code: %d}).Temporary() = %v", c, (&SMTPError{Code: c}).Temporary())
		}
	}
}
