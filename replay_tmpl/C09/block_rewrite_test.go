// Replay oracle (injected with go test -overlay): the demonstration a sub-agent wrote for the seeded change
// C09-originalrcpts-recorded-before-block-modifiers; it passes on the unchanged tree and fails when the property is broken that way.
package msgpipeline

import (
	"errors"
	"sort"
	"sync"
	"testing"

	"github.com/foxcpp/maddy/framework/module"
	"github.com/foxcpp/maddy/internal/modify"
	"github.com/foxcpp/maddy/internal/testutils"
)

type demoStatus struct {
	rcpt string
	err  error
}

type demoCollector struct {
	mu    sync.Mutex
	calls []demoStatus
}

func (c *demoCollector) SetStatus(rcptTo string, err error) {
	c.mu.Lock()
	defer c.mu.Unlock()
	c.calls = append(c.calls, demoStatus{rcptTo, err})
}

func (c *demoCollector) names() []string {
	var res []string
	for _, s := range c.calls {
		res = append(res, s.rcpt)
	}
	sort.Strings(res)
	return res
}

// C09: the pipeline reports per-recipient results of rewritten recipients
// under the addresses the client supplied. Here the rewrite happens in the
// modifiers of the recipient block (destination_in/default_destination
// level), optionally after an earlier rewrite at the global level.
func TestDemoC09_PerRcptBlockRewrite_StatusUnderClientAddress(t *testing.T) {
	goAway := errors.New("go away")

	run := func(t *testing.T, global modify.Group, clientRcpts []string, blockRewrite map[string][]string, partial map[string]error) *demoCollector {
		target := testutils.Target{PartialBodyErr: partial}
		d := MsgPipeline{
			msgpipelineCfg: msgpipelineCfg{
				globalModifiers: global,
				perSource:       map[string]sourceBlock{},
				defaultSource: sourceBlock{
					perRcpt: map[string]*rcptBlock{},
					defaultRcpt: &rcptBlock{
						modifiers: modify.Group{
							Modifiers: []module.Modifier{
								testutils.Modifier{
									InstName: "block_modifier",
									RcptTo:   blockRewrite,
								},
							},
						},
						targets: []module.DeliveryTarget{&target},
					},
				},
			},
			Log: testutils.Logger(t, "msgpipeline"),
		}

		c := &demoCollector{}
		testutils.DoTestDeliveryNonAtomic(t, c, &d, "sender@example.org", clientRcpts)
		return c
	}

	t.Run("one-to-one", func(t *testing.T) {
		c := run(t, modify.Group{},
			[]string{"tester@example.org"},
			map[string][]string{"tester@example.org": {"tester-mbox@example.org"}},
			map[string]error{"tester-mbox@example.org": goAway})

		if len(c.calls) != 1 {
			t.Fatalf("want exactly 1 status, got %v", c.calls)
		}
		if c.calls[0].rcpt != "tester@example.org" {
			t.Errorf("status reported under %q, the client supplied %q", c.calls[0].rcpt, "tester@example.org")
		}
		if c.calls[0].err != goAway {
			t.Errorf("wrong status: %v", c.calls[0].err)
		}
	})

	t.Run("one-to-many", func(t *testing.T) {
		c := run(t, modify.Group{},
			[]string{"list@example.org", "plain@example.org"},
			map[string][]string{"list@example.org": {"m1@example.org", "m2@example.org"}},
			map[string]error{"m1@example.org": nil, "m2@example.org": goAway, "plain@example.org": nil})

		for _, s := range c.calls {
			if s.rcpt != "list@example.org" && s.rcpt != "plain@example.org" {
				t.Errorf("status reported under %q which the client never supplied (all: %v)", s.rcpt, c.names())
			}
		}
		var listErrs, listOK int
		for _, s := range c.calls {
			if s.rcpt == "list@example.org" {
				if s.err == goAway {
					listErrs++
				} else if s.err == nil {
					listOK++
				}
			}
		}
		if listErrs != 1 || listOK != 1 {
			t.Errorf("want one failure and one success reported for list@example.org, got %d/%d (all: %v)", listErrs, listOK, c.names())
		}
	})

	t.Run("global-then-block", func(t *testing.T) {
		global := modify.Group{
			Modifiers: []module.Modifier{
				testutils.Modifier{
					InstName: "global_modifier",
					RcptTo:   map[string][]string{"Tester@Example.ORG": {"tester@example.org"}},
				},
			},
		}
		c := run(t, global,
			[]string{"Tester@Example.ORG"},
			map[string][]string{"tester@example.org": {"tester-mbox@example.org"}},
			map[string]error{"tester-mbox@example.org": goAway})

		if len(c.calls) != 1 {
			t.Fatalf("want exactly 1 status, got %v", c.calls)
		}
		if c.calls[0].rcpt != "Tester@Example.ORG" {
			t.Errorf("status reported under %q, the client supplied %q", c.calls[0].rcpt, "Tester@Example.ORG")
		}
	})

	// Control: a rewrite at the global level only is translated back (this
	// holds with and without the change).
	t.Run("control-global-only", func(t *testing.T) {
		global := modify.Group{
			Modifiers: []module.Modifier{
				testutils.Modifier{
					InstName: "global_modifier",
					RcptTo:   map[string][]string{"tester@example.org": {"tester-mbox@example.org"}},
				},
			},
		}
		c := run(t, global,
			[]string{"tester@example.org"},
			map[string][]string{},
			map[string]error{"tester-mbox@example.org": goAway})

		if len(c.calls) != 1 || c.calls[0].rcpt != "tester@example.org" {
			t.Errorf("want one status for tester@example.org, got %v", c.calls)
		}
	})
}
