// Replay oracle (injected with go test -overlay): the demonstration a sub-agent wrote for the seeded change
// C09-lmtp-rcpt-recorded-before-accept; it passes on the unchanged tree and fails when the property is broken that way.
package smtp_downstream

import (
	"context"
	"errors"
	"testing"

	"github.com/emersion/go-message/textproto"
	"github.com/emersion/go-smtp"
	"github.com/foxcpp/maddy/framework/buffer"
	"github.com/foxcpp/maddy/framework/config"
	"github.com/foxcpp/maddy/framework/exterrors"
	"github.com/foxcpp/maddy/framework/module"
	"github.com/foxcpp/maddy/internal/testutils"
)

// demoCollector records every SetStatus call, in order.
type demoCollector struct {
	calls []demoStatus
}

type demoStatus struct {
	rcpt string
	err  error
}

func (c *demoCollector) SetStatus(rcptTo string, err error) {
	c.calls = append(c.calls, demoStatus{rcptTo, err})
}

// C09: an LMTP next hop rejects the first RCPT and accepts the two others,
// then answers per recipient after DATA. The target has to report exactly one
// result for each of the two accepted recipients, under their own addresses,
// and nothing for the rejected one.
func TestDemo_LMTP_StatusesAfterRejectedRcpt(t *testing.T) {
	be, srv := testutils.SMTPServer(t, "127.0.0.1:"+testPort, func(srv *smtp.Server) {
		srv.LMTP = true
	})
	be.RcptErr = map[string]error{
		"rejected@example.invalid": &smtp.SMTPError{
			Code:         550,
			EnhancedCode: smtp.EnhancedCode{5, 1, 1},
			Message:      "no such user",
		},
	}
	// Indexed by the position among the *accepted* recipients.
	be.LMTPDataErr = []error{
		nil, // ok@example.invalid
		&smtp.SMTPError{ // overquota@example.invalid
			Code:         552,
			EnhancedCode: smtp.EnhancedCode{5, 2, 2},
			Message:      "mailbox full",
		},
	}
	defer srv.Close()
	defer testutils.CheckSMTPConnLeak(t, srv)

	mod := &Downstream{
		hostname: "mx.example.invalid",
		endpoints: []config.Endpoint{
			{
				Scheme: "tcp",
				Host:   "127.0.0.1",
				Port:   testPort,
			},
		},
		modName: "target.lmtp",
		lmtp:    true,
		log:     testutils.Logger(t, "lmtp_downstream"),
	}

	ctx := context.Background()
	msgMeta := module.MsgMetadata{
		DontTraceSender: true,
		ID:              "demo-c09",
		OriginalFrom:    "test@example.invalid",
	}
	delivery, err := mod.Start(ctx, &msgMeta, "test@example.invalid")
	if err != nil {
		t.Fatal("Start:", err)
	}

	// Same as what target.queue does: a failed AddRcpt fails that recipient
	// only, the transaction goes on with the others.
	accepted := map[string]bool{}
	for _, rcpt := range []string{"rejected@example.invalid", "ok@example.invalid", "overquota@example.invalid"} {
		if err := delivery.AddRcpt(ctx, rcpt, smtp.RcptOptions{}); err != nil {
			t.Log("AddRcpt", rcpt, "failed:", err)
			continue
		}
		accepted[rcpt] = true
	}
	if len(accepted) != 2 || accepted["rejected@example.invalid"] {
		t.Fatalf("unexpected set of accepted recipients: %v", accepted)
	}

	sc := &demoCollector{}
	hdr := textproto.Header{}
	hdr.Add("B", "2")
	hdr.Add("A", "1")
	body := buffer.MemoryBuffer{Slice: []byte("foobar\r\n")}
	delivery.(module.PartialDelivery).BodyNonAtomic(ctx, sc, hdr, body)
	if err := delivery.Commit(ctx); err != nil {
		t.Fatal("Commit:", err)
	}

	be.CheckMsg(t, 0, "test@example.invalid", []string{"ok@example.invalid", "overquota@example.invalid"})

	count := map[string]int{}
	last := map[string]error{}
	for _, c := range sc.calls {
		t.Logf("SetStatus(%q, %v)", c.rcpt, c.err)
		count[c.rcpt]++
		last[c.rcpt] = c.err
	}

	for rcpt := range count {
		if !accepted[rcpt] {
			t.Errorf("result reported for %s, which was not accepted in this transaction", rcpt)
		}
	}
	for rcpt := range accepted {
		if count[rcpt] != 1 {
			t.Errorf("%d results reported for accepted recipient %s, want exactly 1", count[rcpt], rcpt)
		}
	}

	if count["ok@example.invalid"] == 1 && last["ok@example.invalid"] != nil {
		t.Errorf("ok@example.invalid was delivered but reported as failed: %v", last["ok@example.invalid"])
	}
	if count["overquota@example.invalid"] == 1 {
		var smtpErr *exterrors.SMTPError
		if !errors.As(last["overquota@example.invalid"], &smtpErr) || smtpErr.Code != 552 {
			t.Errorf("overquota@example.invalid: want the 552 of the server, got %v", last["overquota@example.invalid"])
		}
	}
}
