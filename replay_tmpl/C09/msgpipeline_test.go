package msgpipeline

import (
	"errors"
	"sort"
	"testing"

	"github.com/foxcpp/maddy/framework/module"
	"github.com/foxcpp/maddy/internal/modify"
	"github.com/foxcpp/maddy/internal/testutils"
)

// Replay oracle for C09 (pipeline part; injected with go test -overlay):
// recipients are reported under the addresses the client supplied, and every
// supplied recipient is named.
//
// Scenario: the client addresses both a list (expanded 1-to-N by a modifier)
// and, directly, one of the members of that list. The target is an ordinary
// (atomic) one and its Body fails, so the pipeline itself has to fan out the
// error to all recipients it accepted.

type vrStatuses struct {
	calls map[string][]error
}

func (d *vrStatuses) SetStatus(rcptTo string, err error) {
	if d.calls == nil {
		d.calls = map[string][]error{}
	}
	d.calls[rcptTo] = append(d.calls[rcptTo], err)
}

func (d *vrStatuses) names() []string {
	res := make([]string, 0, len(d.calls))
	for k := range d.calls {
		res = append(res, k)
	}
	sort.Strings(res)
	return res
}

func vrPipeline(t *testing.T, rewrites map[string][]string, tgt module.DeliveryTarget) *MsgPipeline {
	return &MsgPipeline{
		msgpipelineCfg: msgpipelineCfg{
			globalModifiers: modify.Group{
				Modifiers: []module.Modifier{
					testutils.Modifier{
						InstName: "test_modifier",
						RcptTo:   rewrites,
					},
				},
			},
			perSource: map[string]sourceBlock{},
			defaultSource: sourceBlock{
				perRcpt: map[string]*rcptBlock{},
				defaultRcpt: &rcptBlock{
					targets: []module.DeliveryTarget{tgt},
				},
			},
		},
		Log: testutils.Logger(t, "msgpipeline"),
	}
}

func vrCheck(t *testing.T, c *vrStatuses, supplied []string, wantErr error) {
	t.Helper()

	want := append([]string(nil), supplied...)
	sort.Strings(want)
	got := c.names()

	if len(got) != len(want) {
		t.Fatalf("REPRODUCED: statuses reported for %v, client supplied %v", got, want)
	}
	for i := range want {
		if got[i] != want[i] {
			t.Fatalf("REPRODUCED: statuses reported for %v, client supplied %v", got, want)
		}
	}
	for _, rcpt := range supplied {
		for _, err := range c.calls[rcpt] {
			if err == nil || err.Error() != wantErr.Error() {
				t.Errorf("wrong status for %s: %v", rcpt, err)
			}
		}
	}
}

func TestVerifReplayPipelineKeys_ListAndMember(t *testing.T) {
	bodyErr := errors.New("go away")
	target := testutils.Target{BodyErr: bodyErr}

	d := vrPipeline(t, map[string][]string{
		"list@example.org": {"member@example.org", "other@example.org"},
	}, &target)

	supplied := []string{"list@example.org", "member@example.org"}

	c := &vrStatuses{}
	testutils.DoTestDeliveryNonAtomic(t, c, d, "sender@example.org", supplied)

	vrCheck(t, c, supplied, bodyErr)
}

func TestVerifReplayPipelineKeys_AliasAndItsTarget(t *testing.T) {
	bodyErr := errors.New("go away")
	target := testutils.Target{BodyErr: bodyErr}

	d := vrPipeline(t, map[string][]string{
		"alias@example.org": {"user@example.org"},
	}, &target)

	supplied := []string{"user@example.org", "alias@example.org"}

	c := &vrStatuses{}
	testutils.DoTestDeliveryNonAtomic(t, c, d, "sender@example.org", supplied)

	vrCheck(t, c, supplied, bodyErr)
}
