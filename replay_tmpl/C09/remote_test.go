package remote

// Replay oracle for C09 (injected with go test -overlay): drives the real remote target against scripted SMTP
// servers and compares the per-recipient statuses it reports with the recipients it accepted in that transaction.

import (
	"context"
	"fmt"
	"net"
	"sort"
	"sync"
	"testing"

	"github.com/emersion/go-message/textproto"
	"github.com/emersion/go-smtp"
	"github.com/foxcpp/go-mockdns"
	"github.com/foxcpp/maddy/framework/buffer"
	"github.com/foxcpp/maddy/framework/module"
	"github.com/foxcpp/maddy/internal/testutils"
)

type vrCollector struct {
	mu   sync.Mutex
	keys []string
}

func (c *vrCollector) SetStatus(rcptTo string, err error) {
	c.mu.Lock()
	defer c.mu.Unlock()
	c.keys = append(c.keys, rcptTo)
}

func vrTransaction(t *testing.T, tgt *Target, rcpts []string) (accepted, reported []string) {
	delivery, err := tgt.Start(context.Background(), &module.MsgMetadata{ID: "replay", SMTPOpts: smtp.MailOptions{UTF8: true}}, "test@example.com")
	if err != nil {
		t.Fatal(err)
	}
	for _, r := range rcpts {
		if err := delivery.AddRcpt(context.Background(), r, smtp.RcptOptions{}); err == nil {
			accepted = append(accepted, r)
		}
	}
	hdr := textproto.Header{}
	hdr.Add("A", "1")
	c := &vrCollector{}
	delivery.(module.PartialDelivery).BodyNonAtomic(context.Background(), c, hdr, buffer.MemoryBuffer{Slice: []byte("foobar\n")})
	delivery.Commit(context.Background())
	sort.Strings(accepted)
	sort.Strings(c.keys)
	return accepted, c.keys
}

func TestVerifReplayStatusKeys(t *testing.T) {
	be, srv := testutils.SMTPServer(t, "127.0.0.1:"+smtpPort)
	defer srv.Close()
	zones := map[string]mockdns.Zone{
		"example.invalid.":        {MX: []net.MX{{Host: "mx.example.invalid.", Pref: 10}}},
		"тест.invalid.":           {MX: []net.MX{{Host: "mx.example.invalid.", Pref: 10}}},
		"xn--e1aybc.invalid.":     {MX: []net.MX{{Host: "mx.example.invalid.", Pref: 10}}},
		"mx.example.invalid.":     {A: []string{"127.0.0.1"}},
	}
	tgt := testTarget(t, zones, nil, nil)
	tgt.connReuseLimit = 5
	defer tgt.Close()
	bad := 0
	check := func(what string, rcpts []string) {
		acc, rep := vrTransaction(t, tgt, rcpts)
		if fmt.Sprint(acc) != fmt.Sprint(rep) {
			bad++
			t.Logf("REPRODUCED: %s: accepted %q, statuses reported for %q", what, acc, rep)
		}
	}
	// successful transactions that leave the connection in the pool, then further transactions over it
	check("first transaction", []string{"a@example.invalid"})
	check("second transaction on the pooled connection", []string{"b@example.invalid", "c@example.invalid"})
	be.DataErr = &smtp.SMTPError{Code: 550, EnhancedCode: smtp.EnhancedCode{5, 1, 2}, Message: "Hey"}
	check("failing transaction on the pooled connection", []string{"d@example.invalid"})
	// a next hop without SMTPUTF8: the address is converted for the wire, the status must name the address given
	be.DataErr = nil
	check("IDN recipient, next hop without SMTPUTF8", []string{"test@тест.invalid"})
	be.DataErr = &smtp.SMTPError{Code: 550, EnhancedCode: smtp.EnhancedCode{5, 1, 2}, Message: "Hey"}
	check("IDN recipient, failing DATA", []string{"test@тест.invalid", "other@example.invalid"})
	if bad > 0 {
		t.Fatalf("%d transactions reported statuses for other addresses than the accepted recipients", bad)
	}
}
