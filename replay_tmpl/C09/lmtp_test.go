package smtp_downstream

// Replay oracle for C09 (injected with go test -overlay): the LMTP downstream must report exactly one status per
// accepted recipient, under the address it was given.

import (
	"context"
	"errors"
	"fmt"
	"io"
	"sort"
	"testing"

	"github.com/emersion/go-message/textproto"
	"github.com/emersion/go-smtp"
	"github.com/foxcpp/maddy/framework/buffer"
	"github.com/foxcpp/maddy/framework/config"
	"github.com/foxcpp/maddy/framework/module"
	"github.com/foxcpp/maddy/internal/testutils"
)

type vrKeys struct{ keys []string }

func (c *vrKeys) SetStatus(rcptTo string, err error) { c.keys = append(c.keys, rcptTo) }

type vrFailingBuffer struct{}

func (vrFailingBuffer) Open() (io.ReadCloser, error) { return nil, errors.New("cannot open body") }
func (vrFailingBuffer) Len() int                     { return 0 }
func (vrFailingBuffer) Remove() error                { return nil }


func vrLMTP(t *testing.T, rcpts []string, failOpen bool, lmtpErrs []error) (accepted, reported []string, panicked interface{}) {
	be, srv := testutils.SMTPServer(t, "127.0.0.1:"+testPort, func(srv *smtp.Server) { srv.LMTP = true })
	defer srv.Close()
	be.LMTPDataErr = lmtpErrs
	mod := &Downstream{
		hostname:  "mx.example.invalid",
		endpoints: []config.Endpoint{{Scheme: "tcp", Host: "127.0.0.1", Port: testPort}},
		modName:   "target.lmtp",
		lmtp:      true,
		log:       testutils.Logger(t, "lmtp_downstream"),
	}
	delivery, err := mod.Start(context.Background(), &module.MsgMetadata{ID: "replay", SMTPOpts: smtp.MailOptions{UTF8: true}}, "test@example.invalid")
	if err != nil {
		t.Fatal(err)
	}
	defer delivery.Abort(context.Background())
	for _, r := range rcpts {
		if err := delivery.AddRcpt(context.Background(), r, smtp.RcptOptions{}); err == nil {
			accepted = append(accepted, r)
		}
	}
	c := &vrKeys{}
	hdr := textproto.Header{}
	hdr.Add("A", "1")
	func() {
		defer func() { panicked = recover() }()
		if failOpen {
			delivery.(module.PartialDelivery).BodyNonAtomic(context.Background(), c, hdr, vrFailingBuffer{})
		} else {
			delivery.(module.PartialDelivery).BodyNonAtomic(context.Background(), c, hdr, buffer.MemoryBuffer{Slice: []byte("foobar\r\n")})
		}
	}()
	sort.Strings(accepted)
	sort.Strings(c.keys)
	return accepted, c.keys, panicked
}

func TestVerifReplayLMTPStatusKeys(t *testing.T) {
	bad := 0
	check := func(what string, rcpts []string, failOpen bool, errs []error) {
		acc, rep, p := vrLMTP(t, rcpts, failOpen, errs)
		if p != nil || fmt.Sprint(acc) != fmt.Sprint(rep) {
			bad++
			t.Logf("REPRODUCED: %s: accepted %q, statuses reported for %q, panic: %v", what, acc, rep, p)
		}
	}
	e501 := &smtp.SMTPError{Code: 501, Message: "nop"}
	check("two recipients", []string{"rcpt1@example.invalid", "rcpt2@example.invalid"}, false, []error{nil, e501})
	check("body cannot be opened", []string{"rcpt1@example.invalid", "rcpt2@example.invalid"}, true, []error{nil, nil})
	check("IDN recipient, LMTP server without SMTPUTF8", []string{"rcpt1@тест.invalid", "rcpt2@example.invalid"}, false, []error{e501, nil})
	if bad > 0 {
		t.Fatalf("%d transactions reported statuses that do not match the accepted recipients", bad)
	}
}
