package remote

import (
	"context"
	"net"
	"sync"
	"testing"

	"github.com/emersion/go-message/textproto"
	"github.com/emersion/go-smtp"
	"github.com/foxcpp/go-mockdns"
	"github.com/foxcpp/maddy/framework/buffer"
	"github.com/foxcpp/maddy/framework/module"
	"github.com/foxcpp/maddy/internal/testutils"
)

type zzCollector struct {
	mu    sync.Mutex
	calls map[string]int
	errs  map[string]error
}

func (c *zzCollector) SetStatus(rcptTo string, err error) {
	c.mu.Lock()
	defer c.mu.Unlock()
	c.calls[rcptTo]++
	c.errs[rcptTo] = err
}

// Two recipients that differ only by the case of the local part are two
// different mailboxes. Both are accepted by AddRcpt, so both must get exactly
// one result and both must be handed to the next hop.
func TestZZDemo_CaseVariantRcptsEachGetStatus(t *testing.T) {
	be, srv := testutils.SMTPServer(t, "127.0.0.1:"+smtpPort)
	defer srv.Close()
	defer testutils.CheckSMTPConnLeak(t, srv)
	zones := map[string]mockdns.Zone{
		"example.invalid.": {
			MX: []net.MX{{Host: "mx.example.invalid.", Pref: 10}},
		},
		"mx.example.invalid.": {
			A: []string{"127.0.0.1"},
		},
	}

	tgt := testTarget(t, zones, nil, nil)
	defer tgt.Close()

	delivery, err := tgt.Start(context.Background(), &module.MsgMetadata{ID: "test..."}, "test@example.com")
	if err != nil {
		t.Fatal(err)
	}

	rcpts := []string{"Test@example.invalid", "test@example.invalid", "other@example.invalid"}
	for _, rcpt := range rcpts {
		if err := delivery.AddRcpt(context.Background(), rcpt, smtp.RcptOptions{}); err != nil {
			t.Fatal(err)
		}
	}

	hdr := textproto.Header{}
	hdr.Add("B", "2")
	hdr.Add("A", "1")
	body := buffer.MemoryBuffer{Slice: []byte("foobar\n")}

	sc := &zzCollector{calls: map[string]int{}, errs: map[string]error{}}
	delivery.(module.PartialDelivery).BodyNonAtomic(context.Background(), sc, hdr, body)

	if err := delivery.Commit(context.Background()); err != nil {
		t.Fatal(err)
	}

	for _, rcpt := range rcpts {
		if sc.calls[rcpt] != 1 {
			t.Errorf("recipient %s accepted by AddRcpt got %d results, want exactly 1 (all: %v)", rcpt, sc.calls[rcpt], sc.calls)
		}
		if sc.errs[rcpt] != nil {
			t.Errorf("recipient %s: unexpected error %v", rcpt, sc.errs[rcpt])
		}
	}
	if len(sc.calls) != len(rcpts) {
		t.Errorf("results for unexpected addresses: %v", sc.calls)
	}

	be.CheckMsg(t, 0, "test@example.com", rcpts)
}
