package smtp

import (
	"errors"
	"fmt"
	"strings"
	"net"
	"testing"
	"time"

	"github.com/emersion/go-smtp"
	"github.com/foxcpp/maddy/framework/config"
	"github.com/foxcpp/maddy/framework/exterrors"
	"github.com/foxcpp/maddy/framework/module"
	"github.com/foxcpp/maddy/internal/msgpipeline"
	"github.com/foxcpp/maddy/internal/testutils"
)

// End-to-end replay for the known finding F32 (C09): LMTP endpoint, one block that delivers to two targets which both
// refuse the body with 550. The pipeline reports the first recipient a second time, and go-smtp's LMTP collector
// panics ("SetStatus is called more times than particular recipient was specified"); the data goroutine of the
// connection dies in the middle of the fan-out (recovered and logged by go-smtp, recipients without a status yet
// would be answered 421).

type f32LogCapture struct {
	t      *testing.T
	panics int
}

func (l *f32LogCapture) Printf(format string, v ...interface{}) {
	s := fmt.Sprintf(format, v...)
	if strings.Contains(s, "panic serving") {
		l.panics++
		if i := strings.Index(s, "\n"); i > 0 {
			s = s[:i]
		}
	}
	l.t.Log(s)
}

func (l *f32LogCapture) Println(v ...interface{}) { l.t.Log(v...) }

func TestVerifReplayLMTPTwoTargetsStatuses(t *testing.T) {
	bodyErr := &exterrors.SMTPError{Code: 550, EnhancedCode: exterrors.EnhancedCode{5, 0, 0}, Message: "refused"}
	_ = errors.New
	t1 := &testutils.Target{InstName: "f32_target_a", BodyErr: bodyErr}
	t2 := &testutils.Target{InstName: "f32_target_b", BodyErr: bodyErr}
	module.RegisterInstance(t1, nil)
	module.RegisterInstance(t2, nil)
	endp := testEndpoint(t, "lmtp", nil, t1, nil, nil)
	p, err := msgpipeline.New(map[string]interface{}{}, []config.Node{
		{Name: "deliver_to", Args: []string{"&f32_target_a"}},
		{Name: "deliver_to", Args: []string{"&f32_target_b"}},
	})
	if err != nil {
		t.Fatal(err)
	}
	p.Hostname = "mx.example.com"
	p.Resolver = endp.resolver
	p.FirstPipeline = true
	p.Log = testutils.Logger(t, "smtp/pipeline")
	endp.pipeline = p
	capture := &f32LogCapture{t: t}
	endp.serv.ErrorLog = capture
	defer endp.Close()

	conn, err := net.Dial("tcp", "127.0.0.1:"+testPort)
	if err != nil {
		t.Fatal(err)
	}
	lcl := smtp.NewClientLMTP(conn)
	_ = lcl.Hello("mx.example.org")
	replies := map[string]*smtp.SMTPError{}
	var dataErr error
	if err := lcl.Mail("s@example.org", nil); err != nil {
		t.Fatal(err)
	}
	for _, r := range []string{"one@example.com", "two@example.com"} {
		if err := lcl.Rcpt(r, &smtp.RcptOptions{}); err != nil {
			t.Fatal(err)
		}
	}
	w, err := lcl.LMTPData(func(r string, st *smtp.SMTPError) { replies[r] = st })
	if err == nil {
		w.Write([]byte("From: <a@example.org>\r\n\r\nhi\r\n"))
		dataErr = w.Close()
	} else {
		dataErr = err
	}
	lcl.Close()
	for i := 0; i < 100 && endp.sessionCnt.Load() != 0; i++ {
		time.Sleep(10 * time.Millisecond)
	}
	if capture.panics > 0 {
		t.Errorf("REPRODUCED: the LMTP data handler panicked %d time(s): one client recipient was reported more often than it was specified", capture.panics)
	}
	for _, r := range []string{"one@example.com", "two@example.com"} {
		st := replies[r]
		if st == nil || st.Code != 550 {
			t.Errorf("REPRODUCED: recipient %s was refused by its targets with 550 but the LMTP client was told %v (DATA error: %v)", r, st, dataErr)
		}
	}
}
