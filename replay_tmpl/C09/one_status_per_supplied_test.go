package msgpipeline

import (
	"errors"
	"testing"

	"github.com/foxcpp/maddy/framework/module"
	"github.com/foxcpp/maddy/internal/modify"
	"github.com/foxcpp/maddy/internal/testutils"
)

// Replay oracle for C09 (pipeline as a PartialDelivery): one result per recipient the client supplied. A strict
// collector in the manner of go-smtp's LMTP one: it knows how often each recipient was specified and counts the
// statuses reported for it.
type f32Statuses struct {
	calls map[string]int
}

func (d *f32Statuses) SetStatus(rcptTo string, err error) {
	if d.calls == nil {
		d.calls = map[string]int{}
	}
	d.calls[rcptTo]++
}

func f32Pipeline(t *testing.T, rewrites map[string][]string, tgts ...module.DeliveryTarget) *MsgPipeline {
	return &MsgPipeline{
		msgpipelineCfg: msgpipelineCfg{
			globalModifiers: modify.Group{Modifiers: []module.Modifier{testutils.Modifier{InstName: "test_modifier", RcptTo: rewrites}}},
			perSource:       map[string]sourceBlock{},
			defaultSource: sourceBlock{
				perRcpt:     map[string]*rcptBlock{},
				defaultRcpt: &rcptBlock{targets: tgts},
			},
		},
		Log: testutils.Logger(t, "msgpipeline"),
	}
}

// list@ is expanded to two mailboxes of one (atomic) target whose Body fails.
func TestVerifReplayOneStatusPerSuppliedRcpt_Expansion(t *testing.T) {
	target := testutils.Target{BodyErr: errors.New("go away")}
	d := f32Pipeline(t, map[string][]string{"list@example.org": {"a@example.org", "b@example.org"}}, &target)
	c := &f32Statuses{}
	testutils.DoTestDeliveryNonAtomic(t, c, d, "sender@example.org", []string{"list@example.org"})
	if n := c.calls["list@example.org"]; n != 1 {
		t.Errorf("REPRODUCED: %d statuses reported for list@example.org, which the client specified once (go-smtp's LMTP collector panics on the second one)", n)
	}
}

// one recipient, a block with two targets that both fail.
func TestVerifReplayOneStatusPerSuppliedRcpt_TwoTargets(t *testing.T) {
	t1 := testutils.Target{BodyErr: errors.New("go away")}
	t2 := testutils.Target{BodyErr: errors.New("go away")}
	d := f32Pipeline(t, nil, &t1, &t2)
	c := &f32Statuses{}
	testutils.DoTestDeliveryNonAtomic(t, c, d, "sender@example.org", []string{"user@example.org"})
	if n := c.calls["user@example.org"]; n != 1 {
		t.Errorf("REPRODUCED: %d statuses reported for user@example.org, which the client specified once", n)
	}
}
