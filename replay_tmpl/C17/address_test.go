package address

// Replay for C17 obligations: the contract clauses evaluated concretely (spec functions bound to the real
// library functions) over a set of addresses with case, normalization-form, IDN and malformed variants.

import (
	"strings"
	"testing"
	"unicode/utf8"

	"github.com/foxcpp/maddy/framework/dns"
	"golang.org/x/net/idna"
	"golang.org/x/text/unicode/norm"
)

var verifAddrs = []string{
	"", "postmaster", "POSTMASTER", "user@example.org", "User@EXAMPLE.org", "user@xn--e1aybc.test", "user@тест.test",
	"İvan@example.org", "İvan@example.org", "é@example.org", "é@example.org", "ß@example.org",
	"user@", "@example.org", "user", "a@b@c", "\"quoted@local\"@example.org", "user@.", "user@example.org.", "\u0080@example.org",
	"user@\u0080.test", "us\x80er@example.org", "ｕser@example.org", "user@xn--.test", "ς@example.org",
}

func verifDNSKey(d string) (string, bool) {
	u, err := idna.ToUnicode(d)
	if err != nil {
		return strings.ToLower(d), false
	}
	return strings.TrimSuffix(strings.ToLower(norm.NFC.String(u)), "."), true
}

func verifLookupKey(a string) (string, bool) {
	if a == "" {
		return "", true
	}
	mbox, dom, err := Split(a)
	if err != nil {
		return strings.ToLower(a), false
	}
	kd := ""
	if dom != "" {
		k, ok := verifDNSKey(dom)
		if !ok {
			return strings.ToLower(a), false
		}
		kd = k
	}
	m := strings.ToLower(norm.NFC.String(mbox))
	if kd == "" {
		return m, true
	}
	return m + "@" + kd, true
}

func TestVerifReplayForLookup(t *testing.T) {
	for _, a := range verifAddrs {
		want, ok := verifLookupKey(a)
		got, err := ForLookup(a)
		if got != want || (err == nil) != ok {
			t.Fatalf("REPRODUCED: ForLookup(%q) = (%q, %v), the contract gives (%q, ok=%v)", a, got, err, want, ok)
		}
		for _, b := range verifAddrs {
			kb, _ := verifLookupKey(b)
			if Equal(a, b) != (a == b || want == kb) {
				t.Fatalf("REPRODUCED: Equal(%q, %q) = %v but keys are %q / %q", a, b, Equal(a, b), want, kb)
			}
		}
		if d, _, err := func() (string, string, error) { m, d, e := Split(a); return d, m, e }(); err == nil && d != "" {
			k, ok := verifDNSKey(d)
			g, e := dns.ForLookup(d)
			if g != k || (e == nil) != ok {
				t.Fatalf("REPRODUCED: dns.ForLookup(%q) = (%q, %v), the contract gives (%q, ok=%v)", d, g, e, k, ok)
			}
		}
	}
}

func TestVerifReplaySplit(t *testing.T) {
	for _, a := range verifAddrs {
		m, d, err := Split(a)
		if strings.EqualFold(a, "postmaster") {
			if err != nil || m != a || d != "" {
				t.Fatalf("REPRODUCED: Split(%q) = (%q, %q, %v)", a, m, d, err)
			}
			continue
		}
		if err != nil {
			if m != "" || d != "" {
				t.Fatalf("REPRODUCED: Split(%q) failed but returned parts (%q, %q)", a, m, d)
			}
			continue
		}
		if m == "" || d == "" || m+"@"+d != a || strings.Contains(d, "@") {
			t.Fatalf("REPRODUCED: Split(%q) = (%q, %q): not a split at the last at-sign into non-empty parts", a, m, d)
		}
	}
}

func TestVerifReplayIsASCII(t *testing.T) {
	for _, s := range append(verifAddrs, "\x7f", "\u0080", "a\u0080", "\xff", "abc") {
		want := true
		for i := 0; i < len(s); i++ {
			if s[i] >= utf8.RuneSelf {
				want = false
			}
		}
		if IsASCII(s) != want {
			t.Fatalf("REPRODUCED: IsASCII(%q) = %v", s, IsASCII(s))
		}
		got, err := ToASCII(s)
		if m, d, serr := Split(s); serr == nil {
			mASCII := true
			for i := 0; i < len(m); i++ {
				if m[i] >= utf8.RuneSelf {
					mASCII = false
				}
			}
			if err == nil && !mASCII {
				t.Fatalf("REPRODUCED: ToASCII(%q) = %q succeeded although the local part is not ASCII", s, got)
			}
			if err == nil && d != "" {
				ad, _ := idna.ToASCII(d)
				if got != m+"@"+ad {
					t.Fatalf("REPRODUCED: ToASCII(%q) = %q, want %q", s, got, m+"@"+ad)
				}
			}
		} else if err == nil {
			t.Fatalf("REPRODUCED: ToASCII(%q) succeeded on an address that does not split", s)
		}
		if err != nil && got != s {
			t.Fatalf("REPRODUCED: ToASCII(%q) failed but returned %q", s, got)
		}
	}
}

func TestVerifReplayCleanDomain(t *testing.T) {
	for _, a := range verifAddrs {
		got, err := CleanDomain(a)
		if a == "" {
			if got != "" || err != nil {
				t.Fatalf("REPRODUCED: CleanDomain(\"\") = (%q, %v)", got, err)
			}
			continue
		}
		m, d, serr := Split(a)
		u, ierr := idna.ToUnicode(d)
		if (err == nil) != (serr == nil && ierr == nil) {
			t.Fatalf("REPRODUCED: CleanDomain(%q) error = %v", a, err)
		}
		if err != nil {
			if got != a {
				t.Fatalf("REPRODUCED: CleanDomain(%q) failed but returned %q", a, got)
			}
			continue
		}
		want := m
		if d != "" {
			want = m + "@" + strings.ToLower(norm.NFC.String(u))
		}
		if got != want {
			t.Fatalf("REPRODUCED: CleanDomain(%q) = %q, want %q", a, got, want)
		}
		gu, uerr := ToUnicode(a)
		if uerr == nil && d != "" && gu != m+"@"+norm.NFC.String(u) {
			t.Fatalf("REPRODUCED: ToUnicode(%q) = %q", a, gu)
		}
	}
}
