package address

import (
	"fmt"
	"testing"
)

// BOUNDED stand-in (not a proof) for the part of C17 the contracts cannot reach - quoting and unquoting of local parts
// round-trip (the functions build their result in a strings.Builder; no sequence theory in the generator):
// UnquoteMbox(QuoteMbox(s)) == s for EVERY non-empty string s over the alphabet below up to the stated length, and a
// quoted form with a character left after the closing quote is refused. Prints the number of cases evaluated.
func TestVerifBoundedQuoteRoundTrip(t *testing.T) {
	alphabet := []rune{'a', '"', '\\', '@', '.', ' ', 'é', '('}
	const maxLen = 6
	n, bad := 0, 0
	buf := make([]rune, 0, maxLen)
	var rec func()
	rec = func() {
		if len(buf) > 0 {
			s := string(buf)
			n++
			q := QuoteMbox(s)
			u, err := UnquoteMbox(q)
			if err != nil || u != s {
				bad++
				if bad <= 5 {
					fmt.Printf("BOUNDED-VIOLATION: UnquoteMbox(QuoteMbox(%q)) = UnquoteMbox(%q) = %q, %v\n", s, q, u, err)
				}
			}
			if len(q) > 0 && q[0] == '"' {
				if u2, err2 := UnquoteMbox(q + "x"); err2 == nil {
					bad++
					if bad <= 5 {
						fmt.Printf("BOUNDED-VIOLATION: UnquoteMbox(%q) accepted a character after the closing quote: %q\n", q+"x", u2)
					}
				}
			}
		}
		if len(buf) == maxLen {
			return
		}
		for _, r := range alphabet {
			buf = append(buf, r)
			rec()
			buf = buf[:len(buf)-1]
		}
	}
	rec()
	fmt.Printf("BOUNDED: evaluations=%d violations=%d\n", n, bad)
	if bad > 0 {
		t.Fail()
	}
}
