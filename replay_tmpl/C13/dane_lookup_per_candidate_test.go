package remote

import (
	"context"
	"crypto/tls"
	"crypto/x509"
	"testing"
	"time"

	"github.com/foxcpp/go-mockdns"
	"github.com/foxcpp/maddy/framework/module"
)

// Replay for C05/C13 (daneDelivery.PrepareConn): the TLSA lookup started for one MX candidate must be delivered to
// the future of THAT candidate. mx1 publishes no TLSA records, mx2 publishes a DANE-EE record that does not match
// the certificate it presents. PrepareConn(mx1) is followed at once by PrepareConn(mx2) - which is what attemptMX
// does when connecting to mx1 fails quickly - and then mx2's connection is checked: it must be refused. When mx1's
// lookup goroutine finishes first it stores "no records" into the future of mx2 (it reads the delivery's field only
// after the lookup), and mx2 is accepted without DANE authentication.
func TestVerifReplayDANELookupPerCandidate(t *testing.T) {
	zones := map[string]mockdns.Zone{
		"mx1.example.invalid.": {AD: true, A: []string{"127.0.0.2"}},
		"mx2.example.invalid.": {AD: true, A: []string{"127.0.0.1"}},
		"_25._tcp.mx2.example.invalid.": {
			AD:   true,
			Misc: tlsaRecord("_25._tcp.mx2.example.invalid.", 3, 1, 1, "ffb5cb4d02f996f6385debe9a8952f1af1f4aec7eae0f37c2cd6d0d8ee8391cf"),
		},
	}
	dnsSrv, tgt := targetWithExtResolver(t, zones)
	defer dnsSrv.Close()

	cert := &x509.Certificate{Raw: []byte("not the pinned certificate"), RawSubjectPublicKeyInfo: []byte("not the pinned key")}
	state := tls.ConnectionState{HandshakeComplete: true, ServerName: "mx2.example.invalid", PeerCertificates: []*x509.Certificate{cert}}

	accepted := 0
	const rounds = 200
	for i := 0; i < rounds; i++ {
		deliv := tgt.policies[0].Start(&module.MsgMetadata{ID: "replay"})
		ctx, cancel := context.WithTimeout(context.Background(), 5*time.Second)
		deliv.PrepareConn(ctx, "mx1.example.invalid.")
		deliv.PrepareConn(ctx, "mx2.example.invalid.")
		_, err := deliv.CheckConn(ctx, module.MXNone, module.TLSEncrypted, "example.invalid", "mx2.example.invalid.", state)
		cancel()
		if err == nil {
			accepted++
		}
		time.Sleep(2 * time.Millisecond)
	}
	if accepted > 0 {
		t.Errorf("REPRODUCED: in %d of %d rounds mx2 (usable TLSA records, none matching) was accepted: its connection was judged by the TLSA lookup result of mx1", accepted, rounds)
	}
}
