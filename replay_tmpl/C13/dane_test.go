package remote

// Replay for C13 obligations on verifyDANE: enumerates TLSA multisets (size <= 2) over usage/selector/matching-type
// (including out-of-range values) with association data of the leaf, the intermediate, the root or an unrelated
// certificate, against three chain shapes with and without a completed handshake, and compares the real
// verifyDANE with an oracle written directly from the property statement.

import (
	"crypto/tls"
	"crypto/x509"
	"testing"
	"time"

	"github.com/miekg/dns"
)

func verifOracleDANE(recs []dns.TLSA, cs tls.ConnectionState, now time.Time) (override bool, refuse bool) {
	if len(recs) == 0 {
		return false, false
	}
	if !cs.HandshakeComplete {
		return false, true
	}
	var ee, ta []dns.TLSA
	for _, r := range recs {
		if r.MatchingType > 2 || r.Selector > 1 {
			continue
		}
		switch r.Usage {
		case 2:
			ta = append(ta, r)
		case 3:
			ee = append(ee, r)
		}
	}
	if len(ee) == 0 && len(ta) == 0 {
		return false, false
	}
	leaf := cs.PeerCertificates[0]
	for _, r := range ee {
		r := r
		if r.Verify(leaf) == nil {
			return true, false
		}
	}
	if len(ta) == 0 {
		return false, true
	}
	roots, inters := x509.NewCertPool(), x509.NewCertPool()
	for _, c := range cs.PeerCertificates {
		isRoot := false
		for _, r := range ta {
			r := r
			if c.IsCA && r.Verify(c) == nil {
				isRoot = true
			}
		}
		if isRoot {
			roots.AddCert(c)
		} else {
			inters.AddCert(c)
		}
	}
	if _, err := leaf.Verify(x509.VerifyOptions{DNSName: cs.ServerName, Roots: roots, Intermediates: inters, CurrentTime: now}); err == nil {
		return true, false
	}
	return false, true
}

func TestVerifReplayDANE(t *testing.T) {
	now := time.Unix(1606600100, 0)
	verifyDANETime = now
	certs := map[string]string{"leaf": leafA, "inter": intermediateA, "root": rootA, "other": leafB}
	var pool []dns.TLSA
	for _, usage := range []uint8{0, 1, 2, 3, 4} {
		for _, sel := range []uint8{0, 1, 2} {
			for _, mt := range []uint8{1, 3} {
				for _, c := range []string{"leaf", "inter", "root", "other"} {
					data := keySHA256(certs[c])
					pool = append(pool, singleTlsaRecord(usage, mt, sel, data))
				}
			}
		}
	}
	chains := [][]*x509.Certificate{
		{parsePEMCert(leafA)},
		{parsePEMCert(leafA), parsePEMCert(intermediateA)},
		{parsePEMCert(leafA), parsePEMCert(intermediateA), parsePEMCert(rootA)},
	}
	check := func(recs []dns.TLSA, cs tls.ConnectionState) {
		wantOverride, wantRefuse := verifOracleDANE(recs, cs, now)
		gotOverride, err := verifyDANE(recs, cs)
		if (err != nil) != wantRefuse || (err == nil && gotOverride != wantOverride) {
			var desc []string
			for _, r := range recs {
				desc = append(desc, r.String())
			}
			t.Fatalf("REPRODUCED: verifyDANE(records=%v, handshake=%v, chain length=%d) = (override=%v, err=%v); the statement requires override=%v refuse=%v",
				desc, cs.HandshakeComplete, len(cs.PeerCertificates), gotOverride, err, wantOverride, wantRefuse)
		}
	}
	for _, hs := range []bool{true, false} {
		for _, chain := range chains {
			cs := tls.ConnectionState{HandshakeComplete: hs, ServerName: "maddy.test"}
			if hs {
				cs.PeerCertificates = chain
			}
			check(nil, cs)
			for i := range pool {
				check([]dns.TLSA{pool[i]}, cs)
			}
			for i := 0; i < len(pool); i += 3 {
				for j := 1; j < len(pool); j += 5 {
					check([]dns.TLSA{pool[i], pool[j]}, cs)
				}
			}
		}
	}
}
