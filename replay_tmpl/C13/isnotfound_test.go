package remote

import (
	"context"
	"crypto/tls"
	"crypto/x509"
	"net"
	"strconv"
	"testing"
	"time"

	"github.com/foxcpp/maddy/framework/dns"
	"github.com/foxcpp/maddy/framework/exterrors"
	"github.com/foxcpp/maddy/framework/module"
	miekgdns "github.com/miekg/dns"
)

// demoResolver starts a tiny "validating resolver" on the loopback interface.
//
// mx.example.invalid. lives in a signed zone (AD=true on A/AAAA answers), the
// TLSA query for _25._tcp.mx.example.invalid. is answered with tlsaRcode and
// an empty answer section.
func demoResolver(t *testing.T, tlsaRcode int) *dns.ExtResolver {
	t.Helper()

	pconn, err := net.ListenPacket("udp4", "127.0.0.1:0")
	if err != nil {
		t.Fatal(err)
	}

	mux := miekgdns.NewServeMux()
	mux.HandleFunc(".", func(w miekgdns.ResponseWriter, m *miekgdns.Msg) {
		reply := new(miekgdns.Msg)
		reply.SetReply(m)
		reply.RecursionAvailable = true

		q := m.Question[0]
		switch {
		case q.Name == "mx.example.invalid." && q.Qtype == miekgdns.TypeA:
			reply.AuthenticatedData = true
			reply.Answer = append(reply.Answer, &miekgdns.A{
				Hdr: miekgdns.RR_Header{
					Name:   "mx.example.invalid.",
					Rrtype: miekgdns.TypeA,
					Class:  miekgdns.ClassINET,
					Ttl:    9999,
				},
				A: net.IPv4(127, 0, 0, 1),
			})
		case q.Name == "mx.example.invalid." && q.Qtype == miekgdns.TypeAAAA:
			// Authenticated NODATA.
			reply.AuthenticatedData = true
		case q.Name == "_25._tcp.mx.example.invalid." && q.Qtype == miekgdns.TypeTLSA:
			reply.Rcode = tlsaRcode
		default:
			reply.Rcode = miekgdns.RcodeNameError
		}
		_ = w.WriteMsg(reply)
	})

	srv := &miekgdns.Server{PacketConn: pconn, Handler: mux}
	go srv.ActivateAndServe() //nolint:errcheck
	t.Cleanup(func() { srv.Shutdown() }) //nolint:errcheck

	extResolver, err := dns.NewExtResolver()
	if err != nil {
		t.Fatal(err)
	}
	addr := pconn.LocalAddr().(*net.UDPAddr)
	extResolver.Cfg.Servers = []string{addr.IP.String()}
	extResolver.Cfg.Port = strconv.Itoa(addr.Port)
	return extResolver
}

func demoCheckConn(t *testing.T, tlsaRcode int) (module.TLSLevel, error) {
	t.Helper()

	pol := testDANEPolicy(t, demoResolver(t, tlsaRcode))
	deliv := pol.Start(&module.MsgMetadata{}).(*daneDelivery)

	ctx, cancel := context.WithTimeout(context.Background(), 10*time.Second)
	defer cancel()

	deliv.PrepareConn(ctx, "mx.example.invalid.")

	// The peer completed a TLS handshake with some certificate nobody
	// vouches for (it is what an on-path attacker would present).
	return deliv.CheckConn(ctx, module.MXNone, module.TLSEncrypted, "example.invalid", "mx.example.invalid.",
		tls.ConnectionState{
			HandshakeComplete: true,
			ServerName:        "mx.example.invalid",
			PeerCertificates:  []*x509.Certificate{parsePEMCert(leafB)},
		})
}

// RFC 7672, Section 2.1.1/2.2: if the TLSA lookup for an MX host in a signed
// zone fails (anything but an authenticated denial of existence), the delivery
// must be delayed; the failure must never be read as "no TLSA records".
func TestDemo_DANE_TLSALookupFailureIsNotDenialOfExistence(t *testing.T) {
	for _, rcode := range []int{
		miekgdns.RcodeRefused,
		miekgdns.RcodeNotImplemented,
		miekgdns.RcodeFormatError,
	} {
		rcode := rcode
		t.Run(miekgdns.RcodeToString[rcode], func(t *testing.T) {
			level, err := demoCheckConn(t, rcode)
			if err == nil {
				t.Fatalf("TLSA lookup failed with %s but the connection was accepted for delivery (level %v), expected a temporary failure",
					miekgdns.RcodeToString[rcode], level)
			}
			if !exterrors.IsTemporary(err) {
				t.Errorf("TLSA lookup failure should be a temporary error, got: %v", err)
			}
			if level != module.TLSNone {
				t.Errorf("unexpected TLS level on failure: %v", level)
			}
		})
	}

	// The helper itself: only NXDOMAIN is a "not found" answer.
	for _, rcode := range []int{
		miekgdns.RcodeRefused,
		miekgdns.RcodeNotImplemented,
		miekgdns.RcodeFormatError,
		miekgdns.RcodeServerFailure,
	} {
		if dns.IsNotFound(dns.RCodeError{Name: "_25._tcp.mx.example.invalid.", Code: rcode}) {
			t.Errorf("IsNotFound reports rcode %s as a non-existent name", miekgdns.RcodeToString[rcode])
		}
	}
}

// Sanity checks that behave the same with and without the change: SERVFAIL is
// a temporary failure, NXDOMAIN is "no DANE, no refusal".
func TestDemo_DANE_Sanity(t *testing.T) {
	if _, err := demoCheckConn(t, miekgdns.RcodeServerFailure); err == nil {
		t.Error("SERVFAIL on TLSA lookup: expected an error")
	}
	level, err := demoCheckConn(t, miekgdns.RcodeNameError)
	if err != nil {
		t.Errorf("NXDOMAIN on TLSA lookup: unexpected error: %v", err)
	}
	if level != module.TLSNone {
		t.Errorf("NXDOMAIN on TLSA lookup: unexpected level: %v", level)
	}
	if !dns.IsNotFound(dns.RCodeError{Name: "x.", Code: miekgdns.RcodeNameError}) {
		t.Error("IsNotFound(NXDOMAIN) = false")
	}
}
