// Replay oracle (injected with go test -overlay): the demonstration a sub-agent wrote for the seeded change
// C13-cname-tlsa-error-fail-open; it passes on the unchanged tree and fails when the property is broken that way.
package remote

import (
	"context"
	"net"
	"testing"

	"github.com/foxcpp/go-mockdns"
	"github.com/foxcpp/maddy/framework/dns"
	"github.com/foxcpp/maddy/internal/testutils"
)

// The MX is a DNSSEC-signed CNAME. The TLSA lookup at the canonical name
// fails (SERVFAIL - e.g. bogus signature or a resolver problem, possibly
// induced by an attacker). RFC 7672 Section 2.1 and the C13 property require
// that such lookup failure delays the delivery: DANE must fail closed.

func demoZones() map[string]mockdns.Zone {
	return map[string]mockdns.Zone{
		"example.invalid.": {
			MX: []net.MX{{Host: "mx.example.invalid.", Pref: 10}},
		},
		"mx.example.invalid.": {
			AD:    true,
			CNAME: "mx.cname.invalid.",
		},
		"mx.cname.invalid.": {
			AD: true,
			A:  []string{"127.0.0.1"},
		},
		"_25._tcp.mx.cname.invalid.": {
			Err: &net.DNSError{},
		},
	}
}

func TestDemo_DANE_CNAME_TLSALookupErr_Discover(t *testing.T) {
	dnsSrv, tgt := targetWithExtResolver(t, demoZones())
	defer dnsSrv.Close()

	pol := tgt.policies[0].(*danePolicy)
	d := pol.Start(nil).(*daneDelivery)

	recs, err := d.discoverTLSA(context.Background(), dns.FQDN("mx.example.invalid"))
	if err == nil {
		t.Fatalf("discoverTLSA swallowed the TLSA lookup failure at the canonical name (recs=%v); delivery would proceed without DANE", recs)
	}
}

func TestDemo_DANE_CNAME_TLSALookupErr_Delivery(t *testing.T) {
	// Plaintext-only server: with the failure swallowed the message is even
	// sent over an unencrypted connection.
	be, srv := testutils.SMTPServer(t, "127.0.0.1:"+smtpPort)
	defer srv.Close()
	defer testutils.CheckSMTPConnLeak(t, srv)

	dnsSrv, tgt := targetWithExtResolver(t, demoZones())
	defer dnsSrv.Close()

	_, err := testutils.DoTestDeliveryErr(t, tgt, "test@example.com", []string{"test@example.invalid"})
	if err == nil {
		t.Error("Expected an error, got none")
	}
	if be.MailFromCounter != 0 {
		t.Fatal("MAIL FROM issued but should not")
	}
}
