package pool

import (
	"context"
	"fmt"
	"sync/atomic"
	"testing"
	"time"
)

type demoConn struct {
	usable  bool
	entered chan struct{} // closed when Usable() is entered (if non-nil)
	release chan struct{} // Usable() waits for it (if non-nil)
	closed  int32
}

func (c *demoConn) Usable() bool {
	if c.entered != nil {
		close(c.entered)
	}
	if c.release != nil {
		<-c.release
	}
	return c.usable
}

func (c *demoConn) LastUseAt() time.Time { return time.Now() }

func (c *demoConn) Close() error {
	atomic.AddInt32(&c.closed, 1)
	return nil
}

// A Get that already picked up its bucket and is busy checking a (dead) idle
// connection while the bucket is dropped underneath it (expiry sweep or pool
// shutdown) has to fall back to a fresh connection. It must not crash and
// must not hand out a nil/closed connection.
func demoGetVsDrop(t *testing.T, drop func(p *P)) {
	fresh := &demoConn{usable: true}
	p := New(Config{
		New: func(context.Context, string) (Conn, error) {
			return fresh, nil
		},
		MaxKeys:             10,
		MaxConnsPerKey:      5,
		MaxConnLifetimeSec:  100,
		StaleKeyLifetimeSec: 0, // every bucket is stale for CleanUp
	})

	dead := &demoConn{
		usable:  false,
		entered: make(chan struct{}),
		release: make(chan struct{}),
	}
	p.Return("example.org", dead)

	type result struct {
		conn     Conn
		err      error
		panicked interface{}
	}
	done := make(chan result, 1)
	go func() {
		var r result
		defer func() {
			r.panicked = recover()
			done <- r
		}()
		r.conn, r.err = p.Get(context.Background(), "example.org")
	}()

	select {
	case <-dead.entered:
	case <-time.After(5 * time.Second):
		t.Fatal("Get did not reach the usability check")
	}

	// The worker sits in Usable() with the lock released; drop the bucket.
	drop(p)
	close(dead.release)

	select {
	case r := <-done:
		if r.panicked != nil {
			t.Fatalf("Get crashed: %v", r.panicked)
		}
		if r.err != nil {
			t.Fatalf("Get failed: %v", r.err)
		}
		if r.conn != Conn(fresh) {
			t.Fatalf("Get returned %v, want the freshly created connection", fmt.Sprint(r.conn))
		}
	case <-time.After(5 * time.Second):
		t.Fatal("Get blocked forever")
	}
}

func TestDemo_GetVsCleanUp(t *testing.T) {
	demoGetVsDrop(t, func(p *P) { p.CleanUp(context.Background()) })
}

func TestDemo_GetVsClose(t *testing.T) {
	demoGetVsDrop(t, func(p *P) { p.Close() })
}
