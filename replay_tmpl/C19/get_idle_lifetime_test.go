package pool

import (
	"context"
	"testing"
	"time"
)

type demoConn struct {
	lastUse time.Time
	closed  chan struct{}
}

func (c *demoConn) Usable() bool         { return true }
func (c *demoConn) LastUseAt() time.Time { return c.lastUse }
func (c *demoConn) Close() error {
	close(c.closed)
	return nil
}

// A connection whose last use is older than the idle lifetime (but younger
// than the stale-key lifetime) is returned into a fresh bucket, e.g. after a
// long-running delivery. It must not be handed out again, it must be closed.
func TestDemoExpiredConnNotHandedOut(t *testing.T) {
	p := New(Config{
		MaxKeys:             10,
		MaxConnsPerKey:      5,
		MaxConnLifetimeSec:  150,
		StaleKeyLifetimeSec: 300,
	})
	defer p.Close()

	old := &demoConn{lastUse: time.Now().Add(-200 * time.Second), closed: make(chan struct{})}
	fresh := &demoConn{lastUse: time.Now(), closed: make(chan struct{})}
	p.Return("example.org", old)
	p.Return("example.org", fresh)

	got, err := p.Get(context.Background(), "example.org")
	if err != nil {
		t.Fatal(err)
	}
	if got == Conn(old) {
		t.Fatalf("connection idle for 200s handed out with conn_max_idle_time=150s")
	}
	if got != Conn(fresh) {
		t.Fatalf("expected the fresh connection, got %v", got)
	}
	select {
	case <-old.closed:
	case <-time.After(2 * time.Second):
		t.Fatal("expired connection was not closed")
	}
}
