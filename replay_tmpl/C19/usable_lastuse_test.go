package remote

import (
	"context"
	"net"
	"testing"
	"time"

	"github.com/emersion/go-message/textproto"
	"github.com/emersion/go-smtp"
	"github.com/foxcpp/go-mockdns"
	"github.com/foxcpp/maddy/framework/buffer"
	"github.com/foxcpp/maddy/framework/module"
	"github.com/foxcpp/maddy/internal/smtpconn/pool"
	"github.com/foxcpp/maddy/internal/testutils"
)

// C19: a pooled connection must not be handed out after it exceeded its idle
// lifetime.
//
// The delivery finishes DATA and then sits for longer than the idle lifetime
// before it is committed (as happens when another recipient domain of the same
// message, or another target of the pipeline, is slow). The connection goes
// back into the pool on Commit. The next delivery to the same domain must NOT
// get that connection: it has been idle for longer than conn_max_idle_time, so
// the pool has to close it and a fresh session has to be opened.
func TestDemoC19_IdleConnNotReused(t *testing.T) {
	be, srv := testutils.SMTPServer(t, "127.0.0.1:"+smtpPort)
	defer srv.Close()
	defer testutils.CheckSMTPConnLeak(t, srv)
	zones := map[string]mockdns.Zone{
		"example.invalid.": {
			MX: []net.MX{{Host: "mx.example.invalid.", Pref: 10}},
		},
		"mx.example.invalid.": {
			A: []string{"127.0.0.1"},
		},
	}

	tgt := testTarget(t, zones, nil, nil)
	tgt.connReuseLimit = 5
	// Same pool as testTarget, with idle lifetime of one second.
	tgt.pool.Close()
	tgt.pool = pool.New(pool.Config{
		MaxKeys:             5000,
		MaxConnsPerKey:      5,
		MaxConnLifetimeSec:  1,
		StaleKeyLifetimeSec: 60 * 5,
	})
	defer tgt.Close()

	ctx := context.Background()
	hdr := textproto.Header{}
	hdr.Add("B", "2")
	hdr.Add("A", "1")
	body := buffer.MemoryBuffer{Slice: []byte("foobar\r\n")}

	// First delivery: DATA completes, then the delivery is kept open for
	// longer than the idle lifetime before Commit puts the connection into
	// the pool.
	delivery, err := tgt.Start(ctx, &module.MsgMetadata{ID: "demo-c19-1", DontTraceSender: true}, "test@example.com")
	if err != nil {
		t.Fatal(err)
	}
	if err := delivery.AddRcpt(ctx, "test@example.invalid", smtp.RcptOptions{}); err != nil {
		t.Fatal(err)
	}
	if err := delivery.Body(ctx, hdr, body); err != nil {
		t.Fatal(err)
	}

	time.Sleep(1500 * time.Millisecond)

	if err := delivery.Commit(ctx); err != nil {
		t.Fatal(err)
	}

	// Second delivery, right away: the bucket is brand new, the connection
	// in it is 1.5 seconds idle with the limit of 1 second.
	testutils.DoTestDelivery(t, tgt, "test@example.com", []string{"test@example.invalid"})

	be.CheckMsg(t, 0, "test@example.com", []string{"test@example.invalid"})
	be.CheckMsg(t, 1, "test@example.com", []string{"test@example.invalid"})

	if len(be.SourceEndpoints) != 2 {
		t.Fatal("connection idle for longer than its lifetime was handed out again; sessions seen by the server:", len(be.SourceEndpoints))
	}
}

// The same at the level of the pool interface: what pool.Get relies on is that
// asking the connection whether it is usable does not change the answer to
// "when was it last used".
func TestDemoC19_UsableKeepsLastUseAt(t *testing.T) {
	_, srv := testutils.SMTPServer(t, "127.0.0.1:"+smtpPort)
	defer srv.Close()
	defer testutils.CheckSMTPConnLeak(t, srv)
	zones := map[string]mockdns.Zone{
		"example.invalid.": {
			MX: []net.MX{{Host: "mx.example.invalid.", Pref: 10}},
		},
		"mx.example.invalid.": {
			A: []string{"127.0.0.1"},
		},
	}

	tgt := testTarget(t, zones, nil, nil)
	tgt.connReuseLimit = 5
	defer tgt.Close()

	ctx := context.Background()
	testutils.DoTestDelivery(t, tgt, "test@example.com", []string{"test@example.invalid"})

	// Take the connection out of the pool and put it back as one that was
	// last used 200 seconds ago (limit is 150).
	c, err := tgt.pool.Get(ctx, "example.invalid")
	if err != nil || c == nil {
		t.Fatal("expected a pooled connection", c, err)
	}
	mc := c.(*mxConn)
	mc.lastUseAt = time.Now().Add(-200 * time.Second)
	tgt.pool.Return("example.invalid", mc)

	c2, err := tgt.pool.Get(ctx, "example.invalid")
	if err != nil {
		t.Fatal(err)
	}
	if c2 != nil {
		c2.Close()
		t.Fatal("pool handed out a connection that is idle for 200 seconds with the lifetime of 150 seconds")
	}
	// Closed asynchronously by the pool, give it a moment before the leak
	// check.
	time.Sleep(200 * time.Millisecond)
}
