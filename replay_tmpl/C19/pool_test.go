package pool

// Replay oracle for C19 (injected with go test -overlay; written by a sub-agent as the demonstration of a seeded change):
// concurrent returns, gets and clean-up sweeps for a few seconds; a crash (send on closed channel) or a connection
// closed twice / never is reported.

import (
	"context"
	"fmt"
	"sync"
	"sync/atomic"
	"testing"
	"time"
)

type vrConn struct {
	closed int32
}

func (c *vrConn) Usable() bool         { return true }
func (c *vrConn) LastUseAt() time.Time { return time.Now() }
func (c *vrConn) Close() error {
	atomic.AddInt32(&c.closed, 1)
	return nil
}

// TestVerifReplayReturnVsSweep runs deliveries returning connections to the pool
// concurrently with clean-up sweeps that consider every bucket stale.
//
// Property C19: no interleaving of returns and expiry sweeps may crash, and
// every connection returned to a live pool is eventually handed out again or
// closed exactly once.
func TestVerifReplayReturnVsSweep(t *testing.T) {
	p := New(Config{
		MaxKeys:            3,
		MaxConnsPerKey:     2,
		MaxConnLifetimeSec: 150,
		// Every bucket is stale as soon as the sweep looks at it.
		StaleKeyLifetimeSec: -1,
	})

	const (
		workers  = 8
		duration = 3 * time.Second
	)

	var (
		crashed   int32
		crashMsg  atomic.Value
		stop      = make(chan struct{})
		wg        sync.WaitGroup
		connsLock sync.Mutex
		conns     []*vrConn
		handedOut []*vrConn
	)
	stopped := func() bool {
		select {
		case <-stop:
			return true
		default:
			return atomic.LoadInt32(&crashed) != 0
		}
	}
	guard := func(what string, f func()) {
		defer func() {
			if r := recover(); r != nil {
				if atomic.CompareAndSwapInt32(&crashed, 0, 1) {
					crashMsg.Store(fmt.Sprintf("%s crashed: %v", what, r))
				}
			}
		}()
		f()
	}

	keys := []string{"a.example", "b.example", "c.example"}

	// Deliveries: get / use / return.
	for w := 0; w < workers; w++ {
		w := w
		wg.Add(1)
		go func() {
			defer wg.Done()
			var mine, got []*vrConn
			for i := 0; !stopped(); i++ {
				key := keys[(w+i)%len(keys)]

				var c *vrConn
				pooled, _ := p.Get(context.Background(), key)
				if pooled != nil {
					c = pooled.(*vrConn)
					got = append(got, c)
				} else {
					c = &vrConn{}
					mine = append(mine, c)
				}
				if n := atomic.LoadInt32(&c.closed); n != 0 {
					t.Errorf("REPRODUCED: got a closed connection from the pool (closed %d times)", n)
				}

				guard("Return", func() { p.Return(key, c) })
			}
			connsLock.Lock()
			conns = append(conns, mine...)
			handedOut = append(handedOut, got...)
			connsLock.Unlock()
		}()
	}

	// Expiry sweeps.
	for s := 0; s < 2; s++ {
		wg.Add(1)
		go func() {
			defer wg.Done()
			for !stopped() {
				guard("CleanUp", func() { p.CleanUp(context.Background()) })
			}
		}()
	}

	time.AfterFunc(duration, func() { close(stop) })
	wg.Wait()

	if atomic.LoadInt32(&crashed) != 0 {
		t.Fatal("REPRODUCED: ", crashMsg.Load())
	}

	// Shutdown closes whatever is still idle in the pool.
	p.Close()
	// CleanUp closes connections asynchronously, let it finish.
	deadline := time.Now().Add(5 * time.Second)
	for {
		bad := 0
		for _, c := range conns {
			if atomic.LoadInt32(&c.closed) != 1 {
				bad++
			}
		}
		if bad == 0 {
			break
		}
		if time.Now().After(deadline) {
			t.Fatalf("REPRODUCED: %d of %d returned connections were not closed exactly once", bad, len(conns))
		}
		time.Sleep(10 * time.Millisecond)
	}
}
