// Replay oracle (injected with go test -overlay): the demonstration a sub-agent wrote for the seeded change
// C19-return-calls-cleanup-under-lock; it passes on the unchanged tree and fails when the property is broken that way.
package pool

import (
	"context"
	"sync/atomic"
	"testing"
	"time"
)

type demoConn struct {
	name   string
	closed int32
	used   time.Time
}

func (c *demoConn) Usable() bool         { return atomic.LoadInt32(&c.closed) == 0 }
func (c *demoConn) LastUseAt() time.Time { return c.used }
func (c *demoConn) Close() error {
	atomic.AddInt32(&c.closed, 1)
	return nil
}

func demoWithin(t *testing.T, what string, f func()) {
	t.Helper()
	done := make(chan struct{})
	go func() {
		f()
		close(done)
	}()
	select {
	case <-done:
	case <-time.After(3 * time.Second):
		t.Fatalf("%s did not finish within 3s (blocked forever?)", what)
	}
}

// A return of a connection for a new key while the pool already holds MaxKeys
// buckets (one of them stale) has to collect the stale bucket, keep the fresh
// ones and terminate; afterwards the pool must still be usable and closable.
func TestDemo_ReturnAtKeyCapacityCollectsStale(t *testing.T) {
	p := New(Config{
		MaxKeys:             2,
		MaxConnsPerKey:      2,
		MaxConnLifetimeSec:  150,
		StaleKeyLifetimeSec: 300,
	})

	now := time.Now()
	a := &demoConn{name: "a", used: now}
	b := &demoConn{name: "b", used: now}
	c := &demoConn{name: "c", used: now}

	p.Return("a", a)
	p.Return("b", b)

	// Age bucket "a" beyond the stale key lifetime.
	p.keysLock.Lock()
	s := p.keys["a"]
	s.lastUse -= 1000
	p.keys["a"] = s
	p.keysLock.Unlock()

	demoWithin(t, "Return at key capacity", func() { p.Return("c", c) })

	// The stale connection is closed exactly once (allow async close to land).
	deadline := time.Now().Add(2 * time.Second)
	for atomic.LoadInt32(&a.closed) == 0 && time.Now().Before(deadline) {
		time.Sleep(10 * time.Millisecond)
	}
	if n := atomic.LoadInt32(&a.closed); n != 1 {
		t.Fatalf("stale connection closed %d times, want 1", n)
	}

	demoWithin(t, "Get after collection", func() {
		ctx := context.Background()
		if got, _ := p.Get(ctx, "a"); got != nil {
			t.Errorf("collected key handed out %v", got)
		}
		if got, _ := p.Get(ctx, "b"); got != Conn(b) {
			t.Errorf("fresh key b: got %v, want b", got)
		}
		if got, _ := p.Get(ctx, "c"); got != Conn(c) {
			t.Errorf("new key c: got %v, want c", got)
		}
	})
	if b.closed != 0 || c.closed != 0 {
		t.Fatalf("fresh connections were closed: b=%d c=%d", b.closed, c.closed)
	}

	demoWithin(t, "Close", p.Close)
}
