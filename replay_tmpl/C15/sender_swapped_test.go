// Replay oracle (injected with go test -overlay): the demonstration a sub-agent wrote for the seeded change
// C15-sender-fallback-args-swapped; it passes on the unchanged tree and fails when the property is broken that way.
package authorize_sender

import (
	"bufio"
	"context"
	"strings"
	"testing"

	"github.com/emersion/go-message/textproto"
	modconfig "github.com/foxcpp/maddy/framework/config/module"
	"github.com/foxcpp/maddy/framework/module"
	"github.com/foxcpp/maddy/internal/authz"
	"github.com/foxcpp/maddy/internal/table"
	"github.com/foxcpp/maddy/internal/testutils"
)

func demoCheck(t *testing.T, userToEmail module.Table) *Check {
	return &Check{
		instName:      "demo",
		log:           testutils.Logger(t, "authorize_sender"),
		checkHeader:   true,
		emailPrepare:  &table.Identity{},
		userToEmail:   userToEmail,
		unauthAction:  modconfig.FailAction{Reject: true},
		noMatchAction: modconfig.FailAction{Reject: true},
		errAction:     modconfig.FailAction{Reject: true},
		fromNorm:      authz.NormalizeAuto,
		authNorm:      authz.NormalizeAuto,
	}
}

func demoRun(t *testing.T, c *Check, authUser, mailFrom, hdrText string) (envelope, body module.CheckResult) {
	t.Helper()

	hdr, err := textproto.ReadHeader(bufio.NewReader(strings.NewReader(hdrText + "\r\n")))
	if err != nil {
		t.Fatal(err)
	}

	st, err := c.CheckStateForMsg(context.Background(), &module.MsgMetadata{
		ID:   "demo",
		Conn: &module.ConnState{Proto: "ESMTPSA", AuthUser: authUser},
	})
	if err != nil {
		t.Fatal(err)
	}
	defer st.Close()

	envelope = st.CheckSender(context.Background(), mailFrom)
	body = st.CheckBody(context.Background(), hdr, nil)
	return envelope, body
}

// bob is entitled only to his own address. admin@example.org is entitled to
// the whole domain. bob names the privileged account in the Sender field and
// an address he has no right to in From; neither header author is his.
func TestDemoSenderFieldOfPrivilegedUser(t *testing.T) {
	c := demoCheck(t, testutils.Table{M: map[string]string{
		"bob@example.org":   "bob@example.org",
		"admin@example.org": "example.org",
	}})

	env, body := demoRun(t, c, "bob@example.org", "bob@example.org",
		"From: Human Resources <hr@example.org>\r\n"+
			"Sender: admin@example.org\r\n"+
			"Subject: salary\r\n")
	if env.Reason != nil {
		t.Fatalf("envelope sender bob@example.org must be accepted for bob: %v", env.Reason)
	}
	if body.Reason == nil || !body.Reject {
		t.Fatalf("C15 violated: bob sent with From hr@example.org and Sender admin@example.org, "+
			"neither of which he is entitled to, and the header check accepted it: %+v", body)
	}
}

// Control cases: legitimate "on behalf of" use is accepted, a foreign Sender
// under the identity mapping is refused.
func TestDemoSenderFieldControls(t *testing.T) {
	c := demoCheck(t, testutils.Table{M: map[string]string{
		"bob@example.org":   "bob@example.org",
		"admin@example.org": "example.org",
	}})

	_, body := demoRun(t, c, "bob@example.org", "bob@example.org",
		"From: hr@example.org\r\nSender: bob@example.org\r\n")
	if body.Reason != nil {
		t.Fatalf("From foreign, Sender own address: must be accepted: %v", body.Reason)
	}

	_, body = demoRun(t, c, "bob@example.org", "bob@example.org",
		"From: hr@example.org\r\nSender: carol@example.org\r\n")
	if body.Reason == nil {
		t.Fatal("From foreign, Sender foreign unprivileged: must be refused")
	}

	ident := demoCheck(t, &table.Identity{})
	_, body = demoRun(t, ident, "bob@example.org", "bob@example.org",
		"From: hr@example.org\r\nSender: admin@example.org\r\n")
	if body.Reason == nil {
		t.Fatal("identity mapping: From and Sender foreign: must be refused")
	}
}
