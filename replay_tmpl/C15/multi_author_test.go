package authorize_sender

import (
	"context"
	"testing"

	"github.com/emersion/go-message/textproto"
	modconfig "github.com/foxcpp/maddy/framework/config/module"
	"github.com/foxcpp/maddy/framework/module"
	"github.com/foxcpp/maddy/internal/authz"
	"github.com/foxcpp/maddy/internal/table"
	"github.com/foxcpp/maddy/internal/testutils"
)

func demoState(t *testing.T, authUser string) module.CheckState {
	c := &Check{
		instName:      "demo",
		log:           testutils.Logger(t, modName),
		checkHeader:   true,
		emailPrepare:  &table.Identity{},
		userToEmail:   &table.Identity{},
		unauthAction:  modconfig.FailAction{Reject: true},
		noMatchAction: modconfig.FailAction{Reject: true},
		errAction:     modconfig.FailAction{Reject: true},
		fromNorm:      authz.NormalizeAuto,
		authNorm:      authz.NormalizeAuto,
	}
	st, err := c.CheckStateForMsg(context.Background(), &module.MsgMetadata{
		ID:   "demo",
		Conn: &module.ConnState{Proto: "ESMTPSA", AuthUser: authUser},
	})
	if err != nil {
		t.Fatal(err)
	}
	return st
}

// An authenticated user must not be able to name somebody else as an author
// of the message: every address in From has to be one the user is entitled
// to, whatever the Sender field says.
func TestDemoMultipleFromAuthorsWithSender(t *testing.T) {
	for _, tc := range []struct {
		name   string
		from   string
		sender string
	}{
		{"own sender", "alice@example.org, ceo@example.org", "alice@example.org"},
		{"foreign sender", "alice@example.org, ceo@example.org", "ceo@example.org"},
		{"group", "Board: Alice <alice@example.org>, CEO <ceo@example.org>;", "alice@example.org"},
		{"foreign first", "ceo@example.org, alice@example.org", "alice@example.org"},
	} {
		t.Run(tc.name, func(t *testing.T) {
			st := demoState(t, "alice@example.org")
			defer st.Close()

			if res := st.CheckSender(context.Background(), "alice@example.org"); res.Reason != nil {
				t.Fatalf("own envelope sender refused: %v", res.Reason)
			}

			hdr := textproto.Header{}
			hdr.Add("From", tc.from)
			hdr.Add("Sender", tc.sender)
			hdr.Add("Subject", "quarterly numbers")

			res := st.CheckBody(context.Background(), hdr, nil)
			if res.Reason == nil || !res.Reject {
				t.Fatalf("message with From %q / Sender %q accepted for alice@example.org (result %+v)",
					tc.from, tc.sender, res)
			}
		})
	}
}

// Sanity: the ordinary cases behave the same with and without the change.
func TestDemoSingleFromBaseline(t *testing.T) {
	st := demoState(t, "alice@example.org")
	defer st.Close()

	hdr := textproto.Header{}
	hdr.Add("From", "Alice <alice@example.org>")
	if res := st.CheckBody(context.Background(), hdr, nil); res.Reason != nil {
		t.Fatalf("own From refused: %v", res.Reason)
	}

	hdr = textproto.Header{}
	hdr.Add("From", "ceo@example.org")
	if res := st.CheckBody(context.Background(), hdr, nil); res.Reason == nil {
		t.Fatal("foreign From accepted")
	}

	hdr = textproto.Header{}
	hdr.Add("From", "alice@example.org, ceo@example.org")
	if res := st.CheckBody(context.Background(), hdr, nil); res.Reason == nil {
		t.Fatal("two authors without Sender accepted")
	}
}
