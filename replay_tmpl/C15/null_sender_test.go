package authorize_sender

import (
	"context"
	"testing"

	"github.com/emersion/go-message/textproto"
	modconfig "github.com/foxcpp/maddy/framework/config/module"
	"github.com/foxcpp/maddy/framework/module"
	"github.com/foxcpp/maddy/internal/testutils"
	"github.com/foxcpp/maddy/internal/authz"
	"github.com/foxcpp/maddy/internal/table"
)

func demoCheck(t *testing.T, checkHeader bool) *Check {
	return &Check{
		instName:      "demo",
		log:           testutils.Logger(t, modName),
		checkHeader:   checkHeader,
		emailPrepare:  &table.Identity{},
		userToEmail:   &table.Identity{},
		unauthAction:  modconfig.FailAction{Reject: true},
		noMatchAction: modconfig.FailAction{Reject: true},
		errAction:     modconfig.FailAction{Reject: true},
		fromNorm:      authz.NormalizeAuto,
		authNorm:      authz.NormalizeAuto,
	}
}

// An endpoint with sender authorization (check_header no, so the envelope
// check is the only line of defence) must refuse a client that has not
// authenticated, whatever reverse-path it gives - including the null one.
func TestDemoNullSenderUnauthenticated(t *testing.T) {
	c := demoCheck(t, false)
	for _, authUser := range []string{"", "bob@example.org"} {
		meta := &module.MsgMetadata{
			ID:   "demo",
			Conn: &module.ConnState{AuthUser: authUser},
		}
		st, err := c.CheckStateForMsg(context.Background(), meta)
		if err != nil {
			t.Fatal(err)
		}
		res := st.CheckSender(context.Background(), "")
		if res.Reason == nil || !res.Reject {
			t.Errorf("auth user %q: MAIL FROM:<> accepted by sender authorization (result %+v)", authUser, res)
		}
		// Header check is disabled: nothing else will look at the message.
		var hdr textproto.Header
		hdr.Add("From", "Mallory <ceo@example.org>")
		if bodyRes := st.CheckBody(context.Background(), hdr, nil); bodyRes.Reason != nil {
			t.Fatalf("check_header is off, unexpected body result: %v", bodyRes.Reason)
		}
		st.Close()
	}
}
