package authorize_sender

import (
	"context"
	"testing"

	"github.com/emersion/go-message/textproto"
	modconfig "github.com/foxcpp/maddy/framework/config/module"
	"github.com/foxcpp/maddy/framework/module"
	"github.com/foxcpp/maddy/internal/authz"
	"github.com/foxcpp/maddy/internal/table"
)

// Replay oracle for C15: user "user@example.org" is entitled to exactly her own address (identity mapping).
// Enumerates envelope senders and header layouts built from {own, other} addresses (several From fields, several
// addresses in one field, Sender field) and compares the REAL check's decision with the statement: accepted only if
// the envelope sender, and every address of every From field (or the Sender address) are the user's.
func c15Check() *Check {
	return &Check{
		checkHeader:   true,
		emailPrepare:  &table.Identity{},
		userToEmail:   &table.Identity{},
		unauthAction:  modconfig.FailAction{Reject: true},
		noMatchAction: modconfig.FailAction{Reject: true},
		errAction:     modconfig.FailAction{Reject: true},
		fromNorm:      authz.NormalizeFuncs["auto"],
		authNorm:      authz.NormalizeFuncs["auto"],
	}
}

func TestVerifReplayAuthorizeSender(t *testing.T) {
	const own, other = "user@example.org", "victim@example.org"
	ctx := context.Background()
	c := c15Check()
	for _, authUser := range []string{own, ""} {
		meta := &module.MsgMetadata{Conn: &module.ConnState{}}
		meta.Conn.AuthUser = authUser
		stI, _ := c.CheckStateForMsg(ctx, meta)
		st := stI.(*state)
		// envelope
		for _, from := range []string{own, other, "USER@EXAMPLE.ORG"} {
			res := st.CheckSender(ctx, from)
			want := authUser != "" && from != other
			if (res.Reason == nil) && !want {
				t.Fatalf("REPRODUCED: CheckSender accepts MAIL FROM:<%s> for authenticated user %q", from, authUser)
			}
		}
		// header layouts: list of From field values, optional Sender
		type layout struct {
			from   []string
			sender string
			ok     bool // statement: acceptable for user `own`
		}
		layouts := []layout{
			{[]string{own}, "", true},
			{[]string{other}, "", false},
			{[]string{own, other}, "", false},       // two From fields, second not the user's
			{[]string{other, own}, "", false},       // two From fields, first not the user's
			{[]string{own + ", " + other}, "", false}, // two addresses in one field, no Sender
			{[]string{other}, own, true},            // From not the user's, Sender is
			{[]string{other}, other, false},
			{nil, "", false},
		}
		for _, l := range layouts {
			hdr := textproto.Header{}
			for i := len(l.from) - 1; i >= 0; i-- { // Add prepends: keep the listed order
				hdr.Add("From", l.from[i])
			}
			if l.sender != "" {
				hdr.Add("Sender", l.sender)
			}
			res := st.CheckBody(ctx, hdr, nil)
			want := authUser != "" && l.ok
			if res.Reason == nil && !want {
				t.Fatalf("REPRODUCED: CheckBody accepts From fields %q Sender %q for authenticated user %q (entitled only to %s)", l.from, l.sender, authUser, own)
			}
		}
	}
}
