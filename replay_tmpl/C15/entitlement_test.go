// Replay oracle (injected with go test -overlay): the demonstration a sub-agent wrote for the seeded change
// C15-suffix-entitlement; it passes on the unchanged tree and fails when the property is broken that way.
package authorize_sender

import (
	"bufio"
	"context"
	"strings"
	"testing"

	"github.com/emersion/go-message/textproto"
	modconfig "github.com/foxcpp/maddy/framework/config/module"
	"github.com/foxcpp/maddy/framework/module"
	"github.com/foxcpp/maddy/internal/authz"
	"github.com/foxcpp/maddy/internal/table"
	"github.com/foxcpp/maddy/internal/testutils"
)

// demoMulti is a table with several values per key (module.MultiTable).
type demoMulti struct {
	M map[string][]string
}

func (m demoMulti) Lookup(_ context.Context, k string) (string, bool, error) {
	v := m.M[k]
	if len(v) == 0 {
		return "", false, nil
	}
	return v[0], true, nil
}

func (m demoMulti) LookupMulti(_ context.Context, k string) ([]string, error) {
	return m.M[k], nil
}

func rejectAction() modconfig.FailAction {
	return modconfig.FailAction{Reject: true}
}

func demoCheck(t *testing.T, userToEmail module.Table) *Check {
	return &Check{
		instName:      "demo",
		log:           testutils.Logger(t, modName),
		checkHeader:   true,
		emailPrepare:  &table.Identity{},
		userToEmail:   userToEmail,
		unauthAction:  rejectAction(),
		noMatchAction: rejectAction(),
		errAction:     rejectAction(),
		fromNorm:      authz.NormalizeAuto,
		authNorm:      authz.NormalizeAuto,
	}
}

func demoState(t *testing.T, c *Check, authUser string) module.CheckState {
	t.Helper()
	st, err := c.CheckStateForMsg(context.Background(), &module.MsgMetadata{
		ID: "demo",
		Conn: &module.ConnState{
			Proto:    "ESMTPSA",
			AuthUser: authUser,
		},
	})
	if err != nil {
		t.Fatal(err)
	}
	return st
}

func demoHeader(t *testing.T, s string) textproto.Header {
	t.Helper()
	hdr, err := textproto.ReadHeader(bufio.NewReader(strings.NewReader(s)))
	if err != nil {
		t.Fatal(err)
	}
	return hdr
}

// TestDemoSenderEntitlement checks that an authenticated user is accepted
// only for the addresses the mapping entitles it to, both for MAIL FROM and
// for the header author.
func TestDemoSenderEntitlement(t *testing.T) {
	cases := []struct {
		name     string
		mapping  module.Table
		authUser string
		addr     string
		accepted bool
	}{
		// Default configuration: identity mapping, user is its own address.
		{"identity/own", &table.Identity{}, "bob@example.org", "bob@example.org", true},
		{"identity/own-case", &table.Identity{}, "bob@example.org", "BOB@EXAMPLE.ORG", true},
		{"identity/other", &table.Identity{}, "bob@example.org", "alice@example.org", false},
		{"identity/other-domain", &table.Identity{}, "bob@example.org", "bob@example.com", false},
		{"identity/longer-localpart", &table.Identity{}, "bob@example.org", "jimbob@example.org", false},
		{"identity/dotted-localpart", &table.Identity{}, "bob@example.org", "ceo.bob@example.org", false},

		// Address list.
		{"list/listed", demoMulti{M: map[string][]string{
			"bob": {"bob@example.org", "sales@example.org"},
		}}, "bob", "sales@example.org", true},
		{"list/unlisted", demoMulti{M: map[string][]string{
			"bob": {"bob@example.org", "sales@example.org"},
		}}, "bob", "hr@example.org", false},
		{"list/longer-localpart", demoMulti{M: map[string][]string{
			"bob": {"bob@example.org", "sales@example.org"},
		}}, "bob", "presales@example.org", false},

		// Domain wildcard.
		{"domain/inside", testutils.Table{M: map[string]string{
			"bob": "example.org",
		}}, "bob", "anyone@example.org", true},
		{"domain/outside", testutils.Table{M: map[string]string{
			"bob": "example.org",
		}}, "bob", "anyone@example.com", false},
		{"domain/lookalike", testutils.Table{M: map[string]string{
			"bob": "example.org",
		}}, "bob", "anyone@notexample.org", false},
		{"domain/subdomain", testutils.Table{M: map[string]string{
			"bob": "example.org",
		}}, "bob", "anyone@sub.example.org", false},

		// Unknown user.
		{"nouser", testutils.Table{M: map[string]string{
			"bob": "example.org",
		}}, "mallory", "anyone@example.org", false},
	}

	for _, tc := range cases {
		tc := tc
		t.Run(tc.name, func(t *testing.T) {
			ctx := context.Background()

			// Envelope sender.
			st := demoState(t, demoCheck(t, tc.mapping), tc.authUser)
			res := st.CheckSender(ctx, tc.addr)
			if got := res.Reason == nil && !res.Reject; got != tc.accepted {
				t.Errorf("CheckSender(%q) as %q: accepted = %v, want %v (%v)",
					tc.addr, tc.authUser, got, tc.accepted, res.Reason)
			}

			// Header author.
			hdr := demoHeader(t, "From: Somebody <"+tc.addr+">\r\nSubject: hi\r\n\r\n")
			res = st.CheckBody(ctx, hdr, nil)
			if got := res.Reason == nil && !res.Reject; got != tc.accepted {
				t.Errorf("CheckBody(From: %q) as %q: accepted = %v, want %v (%v)",
					tc.addr, tc.authUser, got, tc.accepted, res.Reason)
			}

			// Sender header, From is somebody else's.
			hdr = demoHeader(t, "From: Boss <boss@elsewhere.example>\r\nSender: <"+tc.addr+">\r\n\r\n")
			res = st.CheckBody(ctx, hdr, nil)
			if got := res.Reason == nil && !res.Reject; got != tc.accepted {
				t.Errorf("CheckBody(Sender: %q) as %q: accepted = %v, want %v (%v)",
					tc.addr, tc.authUser, got, tc.accepted, res.Reason)
			}
		})
	}
}

// TestDemoAuthorizeEmailUse exercises the entitlement lookup directly.
func TestDemoAuthorizeEmailUse(t *testing.T) {
	ctx := context.Background()
	ok, err := authz.AuthorizeEmailUse(ctx, "bob@example.org",
		[]string{"jimbob@example.org"}, &table.Identity{})
	if err != nil {
		t.Fatal(err)
	}
	if ok {
		t.Error("bob@example.org must not be entitled to jimbob@example.org")
	}

	ok, err = authz.AuthorizeEmailUse(ctx, "bob",
		[]string{"x@notexample.org"}, testutils.Table{M: map[string]string{"bob": "example.org"}})
	if err != nil {
		t.Fatal(err)
	}
	if ok {
		t.Error("domain entitlement example.org must not cover notexample.org")
	}
}
