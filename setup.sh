#!/bin/sh
# Builds the verifier offline and warms the build cache for the repository's export data.
cd "$(dirname "$0")" || exit 2
export GOFLAGS=-mod=mod GOPROXY=off GOSUMDB=off GOTOOLCHAIN=local
mkdir -p bin evidence replays
(cd govc && go build -o ../bin/govc .) || exit 2
(cd /repo && go build ./... >/dev/null 2>&1; go list -export -tags verif ./framework/... ./internal/... >/dev/null 2>&1) || true
exit 0
